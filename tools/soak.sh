#!/bin/bash
# soak: many seeds x all checks, --no-write; prints only alarms.  usage: soak.sh FROM TO [tier] [checks...]
cd "$(dirname "$0")/.."
FROM=${1:-1}; TO=${2:-20}; TIER=${3:-quick}; shift 3
CHECKS=${@:-C01 C02 C03 C04 C05 C06 C07 C08 C09 C10 C11 C12 C16 C17 C18 C19 C20}
for seed in $(seq $FROM $TO); do
  for c in $CHECKS; do
    out=$(VERIF_SEED=$seed ./check $c --tier $TIER --no-write 2>&1)
    rc=$?
    echo "seed=$seed $c rc=$rc $(echo "$out" | tail -1)"
    if [ $rc -ne 0 ]; then echo "$out" | grep -A1 "VIOLATION\|HARNESS" | head -12; fi
  done
done
