#!/bin/bash
# run the thorough tier of every check once (no evidence written); usage: thorough_all.sh [seed] [checks...]
cd "$(dirname "$0")/.."
SEED=${1:-0}; shift
CHECKS=${@:-C01 C02 C03 C04 C05 C06 C07 C08 C09 C10 C11 C12 C16 C17 C18 C19 C20}
for c in $CHECKS; do
  s=$(date +%s)
  out=$(VERIF_SEED=$SEED ./check $c --tier thorough --no-write 2>&1); rc=$?
  echo "thorough seed=$SEED $c rc=$rc $(( $(date +%s) - s ))s $(echo "$out" | grep -v KNOWN | tail -1)"
  if [ $rc -ne 0 ]; then echo "$out" | grep -A1 "VIOLATION\|HARNESS" | head -12; fi
done
