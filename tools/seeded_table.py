"""Print the DESIGN.md section-12 table from seeded/*/meta.json (authoritative)."""
import glob
import json
import os

VERIF = os.path.dirname(os.path.dirname(os.path.abspath(__file__)))
print("| seeded change | needs | caught by (rules) | note |")
print("|---|---|---|---|")
for d in sorted(glob.glob(os.path.join(VERIF, "seeded", "*"))):
    m = json.load(open(os.path.join(d, "meta.json")))
    caught = []
    for c in m.get("detected_by", []):
        rules = sorted({r.split()[0].replace("rule=", "") for r in m["checks"][c]["rules"]})
        caught.append(f"{c} ({', '.join(rules[:3])}{', …' if len(rules) > 3 else ''})")
    hist = m.get("history", "")
    note = "**missed at first** → " + hist.split(";", 1)[1].strip() if hist.startswith("missed") and ";" in hist else hist
    print(f"| {os.path.basename(d)} | {m.get('needs_to_manifest', '')} | {'; '.join(caught) or '**not caught**'} | {note} |")
