"""Merge reach/<ID>-<tier>.json files: per library file, lines of function bodies no check reached.

usage: reach_report.py [tier] [file-substring ...]
"""
import glob
import json
import os
import sys

VERIF = os.path.dirname(os.path.dirname(os.path.abspath(__file__)))
sys.path.insert(0, VERIF)
from sim import reach  # noqa: E402

tier = sys.argv[1] if len(sys.argv) > 1 else "quick"
subs = sys.argv[2:]
un: dict = {}
tot: dict = {}
for p in sorted(glob.glob(os.path.join(VERIF, "reach", f"*-{tier}.json"))):
    d = json.load(open(p))
    for f, v in d.items():
        lines = set()
        for r in v["unreached"]:
            a, _, b = r.partition("-")
            lines.update(range(int(a), int(b or a) + 1))
        tot[f] = v["function_lines"]
        un[f] = lines if f not in un else (un[f] & lines)
den = reach.denominators(os.path.join(os.environ.get("VERIF_REPO", "/repo"), "aioesphomeapi"))
for f in sorted(den):
    if subs and not any(s in f for s in subs):
        continue
    if f not in un:
        print(f"{f}: never entered ({len(den[f])} lines)")
        continue
    print(f"{f}: reached {tot[f] - len(un[f])}/{tot[f]}  unreached: {' '.join(reach.ranges(sorted(un[f])))}")
