"""Validate a seeded change produced by a sub-agent and run the checks against it.

usage: seed_eval.py OUT_DIR NAME PROPERTY CHECK[,CHECK...] [--tier quick] [--cases N] [--keep]
 OUT_DIR holds patch.diff, demo_test.py, notes.md.  Everything happens in the scratch worktree /tmp/verif_mut
 (never in /repo).  Result + files are stored under /verif/seeded/NAME/.
"""
import argparse
import json
import os
import shutil
import subprocess
import sys
import tempfile
import xml.etree.ElementTree as ET

ap = argparse.ArgumentParser()
ap.add_argument("out_dir")
ap.add_argument("name")
ap.add_argument("prop")
ap.add_argument("checks")
ap.add_argument("--tier", default="quick")
ap.add_argument("--cases", default=None)
ap.add_argument("--needs", default="")
a = ap.parse_args()
VERIF = os.path.dirname(os.path.dirname(os.path.abspath(__file__)))
WT = "/tmp/verif_mut"


def sh(cmd, **kw):
    return subprocess.run(cmd, shell=isinstance(cmd, str), stdout=subprocess.PIPE, stderr=subprocess.STDOUT, text=True, **kw)


head = sh("git -C /repo rev-parse HEAD").stdout.strip()
if not os.path.isdir(WT):
    print(sh(f"git -C /repo worktree add --detach {WT} {head}").stdout)
sh(f"git -C {WT} checkout --detach {head}")
sh(f"git -C {WT} reset --hard {head}")
sh(f"git -C {WT} clean -fdq")
patch = os.path.join(a.out_dir, "patch.diff")
demo = os.path.join(a.out_dir, "demo_test.py")
res = {"name": a.name, "property": a.prop, "repo_head": head}
env = dict(os.environ, PYTHONPATH=WT)
os.makedirs(f"{WT}/_out", exist_ok=True)
shutil.copy(demo, f"{WT}/_out/demo_test.py")


def run_demo():
    r = sh(f"cd {WT} && timeout 300 /venv/bin/python -m pytest -q -p no:cacheprovider _out/demo_test.py 2>&1 | tail -3", env=env)
    return r.stdout.strip().splitlines()[-1] if r.stdout.strip() else "?"


res["demo_pristine"] = run_demo()
r = sh(f"git -C {WT} apply --whitespace=nowarn {os.path.abspath(patch)}")
if r.returncode:
    print("PATCH DOES NOT APPLY", r.stdout)
    sys.exit(2)
res["demo_patched"] = run_demo()
base = json.load(open("/root/.vp/BASELINE.json"))
with tempfile.TemporaryDirectory() as td:
    out = os.path.join(td, "j.xml")
    sh(f"cd {WT} && timeout 900 /venv/bin/python -m pytest -q -p no:cacheprovider --timeout=900 --continue-on-collection-errors --junitxml={out} tests", env=env)
    passed = set()
    for tc in ET.parse(out).iter("testcase"):
        if not any(ch.tag in ("failure", "error", "skipped") for ch in tc):
            passed.add(f"{tc.get('classname')}::{tc.get('name')}")
missing = sorted(set(base["stable_pass"]) - passed)
res["suite_patched"] = f"{len(set(base['stable_pass']) & passed)}/{len(base['stable_pass'])} stable tests pass"
res["suite_missing"] = missing[:5]
det = {}
for chk in a.checks.split(","):
    cmd = [os.path.join(VERIF, "check"), chk, "--tier", a.tier, "--no-write"]
    if a.cases:
        cmd += ["--cases", a.cases]
    r = sh(cmd, env=dict(os.environ, VERIF_REPO=WT), cwd=VERIF)
    rules = sorted({l.strip().split(":")[0] for l in r.stdout.splitlines() if l.startswith("  rule=")})
    det[chk] = {"exit": r.returncode, "rules": rules[:8], "summary": r.stdout.strip().splitlines()[-1][:200] if r.stdout.strip() else ""}
res["checks"] = det
res["detected_by"] = [c for c, d in det.items() if d["exit"] == 1]
sh(f"git -C {WT} reset --hard {head}")
sh(f"git -C {WT} clean -fdq")
dst = os.path.join(VERIF, "seeded", a.name)
os.makedirs(dst, exist_ok=True)
for f in ("patch.diff", "demo_test.py", "notes.md"):
    if os.path.exists(os.path.join(a.out_dir, f)) and os.path.abspath(a.out_dir) != os.path.abspath(dst):
        shutil.copy(os.path.join(a.out_dir, f), os.path.join(dst, f))
meta = {
    "breaks_property": a.prop,
    "needs_to_manifest": a.needs,
    "verified": {k: res[k] for k in ("repo_head", "demo_pristine", "demo_patched", "suite_patched", "suite_missing")},
    "what_was_run": f"tools/seed_eval.py: patch applied in scratch worktree {WT}; repo test suite; demo with/without patch; ./check <ID> --tier {a.tier} --no-write with VERIF_REPO={WT}",
    "checks": det,
    "detected_by": res["detected_by"],
}
if os.path.exists(os.path.join(dst, "meta.json")):
    try:
        prev = json.load(open(os.path.join(dst, "meta.json")))
        if prev.get("history"):
            meta["history"] = prev["history"]
    except Exception:
        pass
json.dump(meta, open(os.path.join(dst, "meta.json"), "w"), indent=1)
print(json.dumps(res, indent=1))
