#!/bin/bash
# usage: ev.sh OUT_DIR NAME PROPERTY CHECKS "needs"   (wrapper around seed_eval.py printing a short summary)
cd "$(dirname "$0")/.."
/venv/bin/python -B tools/seed_eval.py "$1" "$2" "$3" "$4" --needs "$5" 2>&1 | python3 -c "
import sys,json
t=sys.stdin.read(); i=t.find('{\n')
try: d=json.loads(t[i:])
except Exception: print(t[-1500:]); sys.exit(1)
print(d['name'], '| demo', d['demo_pristine'], '/', d['demo_patched'], '| suite', d['suite_patched'], '| detected_by', d['detected_by'])
for c,v in d['checks'].items(): print('   ',c,v['exit'],v['rules'][:5])
"
