"""Make a patch from (file, old, new) triples against /repo HEAD without touching /repo: writes PATCH to stdout path."""
import os
import subprocess
import sys
import tempfile

out, rest = sys.argv[1], sys.argv[2:]
d = "/tmp/verif_mkpatch"
head = subprocess.run(["git", "-C", "/repo", "rev-parse", "HEAD"], stdout=subprocess.PIPE, text=True).stdout.strip()
if not os.path.isdir(d):
    subprocess.run(["git", "-C", "/repo", "worktree", "add", "--detach", d, head], check=True, stdout=subprocess.DEVNULL)
subprocess.run(["git", "-C", d, "checkout", "-q", "--detach", head])
subprocess.run(["git", "-C", d, "reset", "-q", "--hard", head])
for i in range(0, len(rest), 3):
    f, old, new = rest[i : i + 3]
    p = os.path.join(d, f)
    s = open(p).read()
    old = old.encode().decode("unicode_escape")
    new = new.encode().decode("unicode_escape")
    if old not in s:
        print("OLD NOT FOUND in", f, repr(old))
        sys.exit(2)
    open(p, "w").write(s.replace(old, new, 1))
diff = subprocess.run(["git", "-C", d, "diff"], stdout=subprocess.PIPE, text=True).stdout
open(out, "w").write(diff)
subprocess.run(["git", "-C", d, "reset", "-q", "--hard", head])
print("wrote", out, len(diff.splitlines()), "lines")
