"""Run the repository's pinned test suite (guard off) and compare with BASELINE.json's stable_pass list."""
import json
import os
import subprocess
import sys
import tempfile
import xml.etree.ElementTree as ET

base = json.load(open("/root/.vp/BASELINE.json"))
with tempfile.TemporaryDirectory() as td:
    out = os.path.join(td, "junit.xml")
    cmd = base["cmd"].replace("<file>", out)
    env = dict(os.environ)
    env.pop("AIOESPHOMEAPI_VERIF", None)
    p = subprocess.run(cmd, shell=True, env=env, stdout=subprocess.PIPE, stderr=subprocess.STDOUT)
    tree = ET.parse(out)
passed = set()
for tc in tree.iter("testcase"):
    if any(ch.tag in ("failure", "error", "skipped") for ch in tc):
        continue
    passed.add(f"{tc.get('classname')}::{tc.get('name')}")
want = set(base["stable_pass"])
missing = sorted(want - passed)
print(f"stable_pass={len(want)} passed_now={len(passed)} missing={len(missing)}")
for m in missing[:20]:
    print("  MISSING", m)
sys.exit(1 if missing else 0)
