"""Run checks against a scratch worktree of /repo with a patch applied (never touches /repo).

usage: run_on_patch.py PATCH.diff CHECK[,CHECK...] [--tier quick] [--cases N] [--sub OLD NEW FILE]
"""
import argparse
import os
import subprocess
import sys

ap = argparse.ArgumentParser()
ap.add_argument("patch")
ap.add_argument("checks")
ap.add_argument("--tier", default="quick")
ap.add_argument("--cases", default=None)
ap.add_argument("--dir", default="/tmp/verif_mut")
a = ap.parse_args()
VERIF = os.path.dirname(os.path.dirname(os.path.abspath(__file__)))


def sh(*cmd, **kw):
    return subprocess.run(cmd, stdout=subprocess.PIPE, stderr=subprocess.STDOUT, text=True, **kw)


head = sh("git", "-C", "/repo", "rev-parse", "HEAD").stdout.strip()
if not os.path.isdir(a.dir):
    r = sh("git", "-C", "/repo", "worktree", "add", "--detach", a.dir, head)
    if r.returncode:
        print(r.stdout)
        sys.exit(2)
sh("git", "-C", a.dir, "checkout", "--detach", head)
sh("git", "-C", a.dir, "reset", "--hard", head)
sh("git", "-C", a.dir, "clean", "-fdq")
r = sh("git", "-C", a.dir, "apply", "--whitespace=nowarn", os.path.abspath(a.patch))
if r.returncode:
    print("PATCH DOES NOT APPLY:", r.stdout)
    sys.exit(2)
rc = 0
for chk in a.checks.split(","):
    cmd = [os.path.join(VERIF, "check"), chk, "--tier", a.tier, "--no-write"]
    if a.cases:
        cmd += ["--cases", a.cases]
    env = dict(os.environ, VERIF_REPO=a.dir)
    r = sh(*cmd, env=env, cwd=VERIF)
    lines = [l for l in r.stdout.splitlines() if l.startswith(("VIOLATION", "  rule=", "HARNESS", "KNOWN", "[" + chk + "] eval"))]
    print(f"--- {chk}: exit {r.returncode}")
    print("\n".join(lines[:9]))
    rc = max(rc, r.returncode)
sh("git", "-C", a.dir, "reset", "--hard", head)
sys.exit(rc)
