"""Regenerate MANIFEST.json from the check registry (keeps it valid at all times)."""
import json
import os
import sys

HERE = os.path.dirname(os.path.dirname(os.path.abspath(__file__)))
sys.path.insert(0, HERE)
from tools.manifest_data import CHECKS, EXTRA, NOT_APPLICABLE, SOURCE_COMMITS  # noqa

m = {
    "version": 1,
    "setup_cmd": "/venv/bin/python -B tools/setup_check.py",
    "hooks": {
        "guard": "AIOESPHOMEAPI_VERIF",
        "enable": "no hook inside /repo is needed: every seam (event loop selector, sockets, getaddrinfo, zeroconf classes, time module attribute, ordered handler containers, Noise ephemeral key source) is an object or module attribute the library receives from outside; checks import aioesphomeapi from /repo's working tree (-B, sys.path[0]=/repo)",
        "baseline_off_cmd": "/venv/bin/python -B tools/baseline.py",
        "source_commits": SOURCE_COMMITS,
        "add_only": True,
    },
    "engines": [
        {
            "name": "sim",
            "path": "sim/",
            "serves_properties": [c["property_id"] for c in CHECKS],
            "kind_free_text": "deterministic simulation with fault injection: the real asyncio SelectorEventLoop and the real library run on a virtual clock, a fake selector, fake sockets/network, scripted resolver/mDNS and an independent simulated ESPHome device; seeded scenario generation, explicit JSON scenarios as replay files, structural shrinking",
        }
    ],
    "checks": [],
    "not_applicable": NOT_APPLICABLE,
    "notes": "All checks: ./check <ID> --tier quick|thorough ; replay: ./check <ID> --replay <file>. VERIF_SEED selects the batch. Exit 0 = held on everything explored, 1 = VIOLATION line(s), 2 = HARNESS-ERROR (never a verdict). known_findings.txt lists repaired defects (fixed:) and recorded findings (finding:).",
}
for c in CHECKS:
    pid = c["property_id"]
    m["checks"].append(
        {
            "property_id": pid,
            "quick_cmd": f"./check {pid} --tier quick",
            "thorough_cmd": f"./check {pid} --tier thorough",
            "evidence_file": f"/verif/evidence/{pid}.json",
            "replay_cmd_template": f"./check {pid} --replay {{path}}",
            "engine": "sim",
            "level_claimed": {"category": c["level"], "text": c["text"] + EXTRA.get(pid, ""), "design_ref": c.get("design_ref", "DESIGN.md section 7")},
            "level_note": c["note"],
            "technique": c.get("technique", "deterministic simulation with fault injection (seeded schedule/fault search, reference oracle over the recorded history)"),
        }
    )
json.dump(m, open(os.path.join(HERE, "MANIFEST.json"), "w"), indent=1)
print("MANIFEST.json written:", len(m["checks"]), "checks")
