"""setup_cmd: nothing to compile; verify the interpreter, the dependencies and that the library imports from /repo."""
import os
import sys

sys.path.insert(0, os.path.dirname(os.path.dirname(os.path.abspath(__file__))))
os.chdir(os.path.dirname(os.path.dirname(os.path.abspath(__file__))))
import cryptography  # noqa
import google.protobuf  # noqa
import noise  # noqa
import aiohappyeyeballs  # noqa
import async_interrupt  # noqa
import zeroconf  # noqa
from sim.env import lib

L = lib()
print("ok: aioesphomeapi from", L.pkg_dir, "python", sys.version.split()[0])
