"""Prepare scratch worktrees for a wave of mutation sub-agents: /tmp/<prefix>_<ID> with _out/TASK.md and _out/PROPERTY.json.

usage: seed_wave.py PREFIX [ID ...]      (TASK.md = tools/seed_task_template.txt + the one-line descriptions of the changes
already kept for that property, so that agents look for something else; nothing of the verification machinery is given)
"""
import glob
import json
import os
import subprocess
import sys

VERIF = os.path.dirname(os.path.dirname(os.path.abspath(__file__)))
prefix = sys.argv[1]
props = {json.loads(l)["id"]: json.loads(l) for l in open(os.path.join(VERIF, "properties.jsonl"))}
na = {"C13", "C14", "C15"}  # not applicable to this technique (see MANIFEST.json)
ids = sys.argv[2:] or [i for i in props if i not in na]
tmpl = open(os.path.join(VERIF, "tools", "seed_task_template.txt")).read()
taken: dict = {}
for d in sorted(glob.glob(os.path.join(VERIF, "seeded", "*"))):
    m = json.load(open(os.path.join(d, "meta.json")))
    name = os.path.basename(d)
    taken.setdefault(m["breaks_property"], []).append(f"- {name[4:].replace('-', ' ')}: {m.get('needs_to_manifest', '')}")
# examined and not wanted (delivered repeatedly; equivalent in effect under real transports, or plain duplicates)
for k, lines in {
    "C08": ["- failed keepalive ping write swallowed in _async_send_keep_alive (with or without timers re-armed behind it): examined, not wanted", "- disconnect() returning early when _expected_disconnect is already set: taken (C05)"],
    "C10": ["- failed keepalive ping write swallowed in _async_send_keep_alive: examined, not wanted"],
    "C12": ["- dispatch over the live handler set when there is a single handler (no copy): taken", "- _remove_message_callback deleting the whole handler set / the last handler: taken"],
    "C16": ["- dispatch over the live handler set when there is a single handler (no copy): taken", "- _remove_message_callback deleting the whole handler set / the last handler: taken"],
    "C17": ["- dispatch over the live handler set when there is a single handler (no copy): taken", "- _remove_message_callback deleting the whole handler set / the last handler: taken"],
    "C06": ["- Noise server hello parsed with split() so that the name check is skipped when a MAC follows the name: taken (C04)"],
}.items():
    taken.setdefault(k, []).extend(lines)
head = subprocess.run("git -C /repo rev-parse HEAD", shell=True, capture_output=True, text=True).stdout.strip()
for i in ids:
    wt = f"/tmp/{prefix}_{i}"
    subprocess.run(f"git -C /repo worktree add --detach {wt} {head}", shell=True, check=True, capture_output=True)
    os.makedirs(f"{wt}/_out", exist_ok=True)
    p = props[i]
    json.dump(p, open(f"{wt}/_out/PROPERTY.json", "w"), indent=1)
    text = tmpl.replace("__WT__", wt).replace("__PROPERTY__", f"{p['id']} - {p['title']}\n{p['statement']}\nQuantifier: {p['quantifier']['text']}")
    text += "\n\nIdeas that are ALREADY TAKEN (do not repeat them or close variants; find different mechanisms, code sites and triggers):\n" + "\n".join(taken.get(i, []) + [t for k, v in taken.items() if k != i for t in v if False]) + "\n"
    open(f"{wt}/_out/TASK.md", "w").write(text)
    print(wt, len(taken.get(i, [])), "taken")
