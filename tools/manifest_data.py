SOURCE_COMMITS = []

_TB = "Trusted: CPython 3.12 asyncio, cryptography, protobuf/api_pb2, noise, async_interrupt, aiohappyeyeballs. Pure-Python build of the library only. The simulator samples schedules and faults: a clean batch is evidence, not proof; systematic sweeps are exhaustive only over the turns of the baselines generated."

CHECKS = [
    {
        "property_id": "C05",
        "level": "exploration",
        "text": "Seeded search over session scenarios (both transports, 1-3 addresses, chunkings, latencies incl. 0) in which close causes (EOF, RST, read error, garbage, peer disconnect request with trailing frames, undecodable payload, force_disconnect, disconnect, caller cancel, write error) are anchored in / next to the event-loop turn of every phase-completing event, plus crash-point sweeps (cause x every turn x pre/post I/O) over baselines and raw-connection reuse histories. Oracle over every recorded state *transition* (not samples): forward-only, CLOSED final, is_connected <=> CONNECTED, a phase call returns normally only if no close preceded its return, repeated/overlapping phase calls refused without effect.",
        "note": _TB,
    },
]

NOT_APPLICABLE = [
    {"property_id": "C13", "reason": "registry-vs-api.proto equality and API-surface direction are static comparisons of constant tables with a file: no schedule, clock, fault or interleaving for a simulator to decide (DESIGN.md section 8)"},
    {"property_id": "C14", "reason": "model/enum mirroring and value conversion are pure functions of one message value and constant tables; nothing to schedule or fault (DESIGN.md section 8)"},
    {"property_id": "C15", "reason": "command encoding is a pure function of (arguments, negotiated version) to bytes; driving it through the simulator would be input generation in simulator vocabulary (DESIGN.md section 8)"},
]
