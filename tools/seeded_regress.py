"""Re-run every kept seeded change against the checks recorded as catching it (meta.json: detected_by) and report
the ones that are no longer caught with the current generators/oracles.

usage: seeded_regress.py [--after=NAME] [NAME-PREFIX ...]      (stops at the first recorded check that still catches; scratch worktree /tmp/verif_regress; never touches /repo)
"""
import glob
import json
import os
import subprocess
import sys

VERIF = os.path.dirname(os.path.dirname(os.path.abspath(__file__)))
WT = "/tmp/verif_regress"


def sh(cmd, **kw):
    return subprocess.run(cmd, shell=isinstance(cmd, str), stdout=subprocess.PIPE, stderr=subprocess.STDOUT, text=True, **kw)


head = sh("git -C /repo rev-parse HEAD").stdout.strip()
if not os.path.isdir(WT):
    print(sh(f"git -C /repo worktree add --detach {WT} {head}").stdout.strip())
sh(f"git -C {WT} checkout --detach {head}")
lost = []
n = 0
for d in sorted(glob.glob(os.path.join(VERIF, "seeded", "*"))):
    name = os.path.basename(d)
    args = [a for a in sys.argv[1:] if not a.startswith("--after=")]
    after = next((a[len("--after="):] for a in sys.argv[1:] if a.startswith("--after=")), None)
    if after is not None and name <= after:
        continue
    if args and not any(name.startswith(p) for p in args):
        continue
    meta = json.load(open(os.path.join(d, "meta.json")))
    det = meta.get("detected_by", [])
    if not det:
        continue
    sh(f"git -C {WT} reset --hard {head}")
    r = sh(f"git -C {WT} apply --whitespace=nowarn {os.path.join(d, 'patch.diff')}")
    if r.returncode:
        print(f"{name}: PATCH DOES NOT APPLY on {head[:7]}")
        lost.append((name, "patch"))
        continue
    n += 1
    still = []
    cost = {"C02": 9, "C05": 3, "C07": 3, "C08": 3, "C03": 2, "C09": 2}
    for chk in sorted(det, key=lambda c: (cost.get(c, 1), c)):  # cheapest first; one catching check is enough
        if still and not still[-1].endswith("(harness-error)"):
            break
        rr = sh([os.path.join(VERIF, "check"), chk, "--tier", "quick", "--no-write"], env=dict(os.environ, VERIF_REPO=WT), cwd=VERIF)
        if rr.returncode == 1:
            still.append(chk)
        elif rr.returncode == 2:
            still.append(chk + "(harness-error)")
    print(f"{name}: recorded {det} now {still}", flush=True)
    if not any(c in det for c in still):
        lost.append((name, det))
sh(f"git -C {WT} reset --hard {head}")
print(f"checked {n} seeded changes; no longer caught: {lost}")
sys.exit(1 if lost else 0)
