"""In-process fakes for the three zeroconf classes the library imports by name."""
from __future__ import annotations

from ipaddress import ip_address
from typing import Any

from .core import HarnessError


def _world() -> Any:
    from .env import current_world

    return current_world()


async def sim_sleep(w: Any, d: float) -> None:
    """Sleep in virtual time without creating a loop timer (agenda driven)."""
    fut = w.loop.create_future()
    w.after(d, lambda: (not fut.done()) and fut.set_result(None))
    await fut


class FakeZeroconf:
    def __init__(self, owner: str = "lib") -> None:
        w = _world()
        self.w = w
        self.zid = w.new_id("zc")
        self.owner = owner
        self.listeners: list = []
        self.closed = False
        w.zcs = getattr(w, "zcs", [])
        w.zcs.append(self)
        w.rec("zc_new", zc=self.zid, owner=owner)

    def async_add_listener(self, listener: Any, question: Any) -> None:
        self.w.rec("zc_add_listener", zc=self.zid, closed=self.closed)
        self.listeners.append(listener)

    def async_remove_listener(self, listener: Any) -> None:
        self.w.rec("zc_remove_listener", zc=self.zid, closed=self.closed)
        if listener in self.listeners:
            self.listeners.remove(listener)

    def deliver(self, records: list) -> None:
        for l in list(self.listeners):
            l.async_update_records(self, self.w.now, records)


class FakeAsyncZeroconf:
    def __init__(self, zc: Any = None, **kw: Any) -> None:
        w = _world()
        self.w = w
        if zc is None:
            if w.knobs.get("zc_create_fails"):
                w.fire("zc_create_fails")
                w.rec("zc_create_failed")
                raise OSError(19, "No such device")
            zc = FakeZeroconf("lib")
            self.owner = "lib"
        else:
            if not isinstance(zc, FakeZeroconf):
                raise HarnessError("real zeroconf object reached the fake")
            self.owner = zc.owner
        self.zeroconf = zc
        self.aid = w.new_id("azc")
        w.rec("azc_new", azc=self.aid, zc=zc.zid, owner=self.owner)

    async def async_close(self) -> None:
        w = self.w
        w.rec("azc_close_begin", azc=self.aid, zc=self.zeroconf.zid, owner=self.zeroconf.owner)
        d = w.knobs.get("zc_close_delay", 0.0)
        if d:
            await sim_sleep(w, d)
        self.zeroconf.closed = True
        w.rec("azc_close_end", azc=self.aid, zc=self.zeroconf.zid, owner=self.zeroconf.owner)


class FakeServiceInfo:
    """mdns spec (world.mdns): name -> {"v4": [...], "v6": [...], "latency": s, "outcome": ok|none|error|hang}"""

    def __init__(self, type_: str, name: str, server: str | None = None, **kw: Any) -> None:
        # the real constructor's precondition, decided by the real zeroconf code (BadTypeInNameException for a name whose
        # instance label is empty, longer than 63 bytes or holds control characters)
        import zeroconf as _zc_real

        if not type_.endswith(_zc_real.service_type_name(name, strict=False)):
            raise _zc_real.BadTypeInNameException
        self.type = type_
        self.name = name
        self.server = server
        self._v4: list = []
        self._v6: list = []

    async def async_request(self, zc: Any, timeout: float, *a: Any, **kw: Any) -> bool:
        w = _world()
        if not isinstance(zc, FakeZeroconf):
            raise HarnessError("real zeroconf object reached the fake service info")
        host = self.name.partition(".")[0]
        spec = getattr(w, "mdns", {}) or {}
        ent = spec.get(host, spec.get("*", {"outcome": "none"}))
        if isinstance(ent, list):
            # per-call list
            cnt = w.__dict__.setdefault("_mdns_calls", {})
            i = cnt.get(host, 0)
            cnt[host] = i + 1
            ent = ent[min(i, len(ent) - 1)]
        w.rec("mdns_request", host=host, zc=zc.zid, zc_closed=zc.closed, timeout_ms=timeout)
        outcome = ent.get("outcome", "ok")
        lat = ent.get("latency", 0.01)
        tmo = timeout / 1000.0
        if outcome == "hang":
            w.fire("mdns_hang")
            await w.loop.create_future()
        if outcome == "none" or lat > tmo:
            w.fire("mdns_none")
            await sim_sleep(w, tmo)
            return False
        await sim_sleep(w, lat)
        if outcome == "error":
            w.fire("mdns_error")
            exc = OSError(101, "mdns send failed")
            exc.sim_fault_id = w.new_id("F")  # type: ignore[attr-defined]
            raise exc
        self._v4 = [ip_address(a) for a in ent.get("v4", [])]
        self._v6 = [ip_address(a) for a in ent.get("v6", [])]
        if outcome == "partial":
            # python-zeroconf semantics: the A/AAAA records arrived (addresses are known) but the TXT/SRV records never
            # do, so the request runs to its timeout and reports "incomplete" (False); the addresses stay usable
            w.fire("mdns_partial")
            await sim_sleep(w, max(0.0, tmo - lat))
            return False
        return True

    def ip_addresses_by_version(self, version: Any) -> list:
        n = getattr(version, "name", str(version))
        if n == "V6Only":
            return list(self._v6)
        if n == "V4Only":
            return list(self._v4)
        return list(self._v4) + list(self._v6)


def install(L: Any) -> None:
    L.zc_mod.AsyncZeroconf = FakeAsyncZeroconf
    L.zc_mod.Zeroconf = FakeZeroconf
    L.host_resolver.AsyncServiceInfo = FakeServiceInfo
