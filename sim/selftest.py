"""Determinism self-test at scale: many scenarios of every check, digests compared between this process, a second run in
this process, and fresh interpreters under other PYTHONHASHSEED values and another worker count.

usage: ./check selftest-determinism [--tier quick|thorough]     exit 0 = all digests agree, 2 = HARNESS-ERROR
"""
from __future__ import annotations

import concurrent.futures as cf
import json
import os
import subprocess
import sys
import time

VERIF = os.path.dirname(os.path.dirname(os.path.abspath(__file__)))


def _fresh(args: tuple) -> list[str]:
    scns, hashseed = args
    env = dict(os.environ)
    env["PYTHONHASHSEED"] = hashseed
    p = subprocess.run([sys.executable, "-B", os.path.join(VERIF, "sim", "cli.py"), "--digests"], input=json.dumps(scns).encode(), stdout=subprocess.PIPE, stderr=subprocess.PIPE, env=env, cwd=VERIF, timeout=1800)
    out = [l for l in p.stdout.decode().splitlines() if l and not l.startswith("WARNING")]
    if len(out) != len(scns):
        return ["ERR:" + p.stderr.decode()[-200:]] * len(scns)
    return out


def determinism(seed: int, tier: str) -> int:
    from .checks import ALL_IDS, get_check
    from .engine import run_scenario
    from .runner import case_rng

    n_cases = 12 if tier == "quick" else 120
    t0 = time.time()
    items: list[tuple[str, int, dict]] = []
    for pid in ALL_IDS:
        chk = get_check(pid)
        for i in range(n_cases):
            it = iter(chk.cases(case_rng(seed, pid, "quick", i), "quick", i))
            for k in range(2):  # the first two scenarios of a case (a baseline and one sweep variant)
                try:
                    items.append((pid, i, next(it)))
                except StopIteration:
                    break
    here = [run_scenario(s).digest for _p, _i, s in items]
    again = [run_scenario(s).digest for _p, _i, s in items]
    bad = [(items[k][0], items[k][1]) for k in range(len(items)) if here[k] != again[k]]
    scns = [json.loads(json.dumps(s, default=str)) for _p, _i, s in items]
    mism: dict = {}
    for hashseed, workers in (("1", 16), ("777", 5), ("4242", 1 if tier == "quick" else 3)):
        chunks = [scns[k::workers] for k in range(workers)]
        idxs = [list(range(len(scns)))[k::workers] for k in range(workers)]
        with cf.ThreadPoolExecutor(max_workers=workers) as ex:
            res = list(ex.map(_fresh, [(c, hashseed) for c in chunks]))
        m = 0
        for ix, ds in zip(idxs, res):
            for k, d in zip(ix, ds):
                if d != here[k]:
                    m += 1
                    bad.append((items[k][0], items[k][1]))
        mism[f"hashseed={hashseed},procs={workers}"] = m
    print(f"[selftest-determinism] scenarios={len(items)} same-process-mismatch={sum(1 for k in range(len(items)) if here[k] != again[k])} fresh-interpreter-mismatch={mism} wall={time.time() - t0:.1f}s")
    if bad:
        print(f"HARNESS-ERROR selftest-determinism: digests differ for {sorted(set(bad))[:10]}")
        return 2
    return 0
