"""Batch runner: seeded generation, sharded execution, oracles, shrinking, replay, evidence."""
from __future__ import annotations

import collections
import concurrent.futures as cf
import copy
import faulthandler
import hashlib
import json
import multiprocessing as mp
import os
import random
import subprocess
import sys
import time
import traceback
from typing import Any, Iterable

VERIF = os.path.dirname(os.path.dirname(os.path.abspath(__file__)))
GEN_VERSION = 1


class Violation:
    def __init__(self, rule: str, disc: str, msg: str) -> None:
        self.rule = rule
        self.disc = disc
        self.msg = msg

    def key(self) -> tuple:
        return (self.rule, self.disc)

    def to_json(self) -> dict:
        return {"rule": self.rule, "disc": self.disc, "msg": self.msg}


class CheckBase:
    pid = "C00"
    level = "exploration"
    title = ""
    quick_cases = 200
    thorough_cases = 2000
    rule_text = ""
    assumptions: list[str] = []
    real = [
        "aioesphomeapi (client, connection, frame helpers, reconnect logic, host resolver, zeroconf manager, models) from the repo working tree",
        "asyncio SelectorEventLoop, tasks, futures, timers, asyncio.timeout/wait, create_connection, sock_connect, _SelectorSocketTransport",
        "aiohappyeyeballs, async_interrupt, noise + chacha20poly1305_reuseable (client side), protobuf",
    ]
    stub = [
        "selector, sockets, TCP network, loop.time, loop.getaddrinfo",
        "AsyncZeroconf / Zeroconf / AsyncServiceInfo",
        "time module attribute in connection.py and reconnect_logic.py",
        "ESPHome device (independent plaintext codec and Noise responder)",
        "application code (scripted actors)",
    ]

    def cases(self, rng: random.Random, tier: str, idx: int) -> Iterable[dict]:
        raise NotImplementedError

    def oracle(self, run: Any, scn: dict) -> list[Violation]:
        raise NotImplementedError

    def sample(self, run: Any, scn: dict) -> dict:
        return {"scenario": brief(scn), "turn_trace": turn_trace(run.history)[:40], "reason": run.reason}

    def extra_evidence(self, stats: dict) -> dict:
        return {}

    def distinct_key(self, run: Any, scn: dict) -> int | None:
        """Hash identifying this run among the distinct non-trivial ones, or None if trivial."""
        if nontrivial(run):
            return trace_hash(run.history)
        return None


def brief(scn: dict) -> dict:
    """Short form of a scenario for evidence samples."""
    s = json.loads(json.dumps(scn, default=str))
    txt = json.dumps(s)
    if len(txt) > 2500:
        s = {"family": s.get("family"), "knobs": s.get("knobs"), "client": s.get("client"), "actors": s.get("actors"), "events": (s.get("events") or [])[:6], "note": "truncated"}
        txt = json.dumps(s)
        if len(txt) > 4000:
            s = {"family": s.get("family"), "note": "truncated", "text": txt[:2500]}
    return s


_STIM = {"recv", "recv_eof", "recv_err", "poke", "stall", "op_start", "cancel_sent"}


def _ev_key(ev: tuple) -> str:
    kind, d = ev[3], ev[4]
    for f in ("name", "new", "do", "what", "kind"):
        v = d.get(f)
        if v is not None:
            return f"{kind}:{v}"
    if kind == "op_end":
        return f"op_end:{d.get('do')}:{'ok' if d.get('ok') else 'err'}"
    if kind == "fatal":
        return f"fatal:{d['err']['cls']}"
    return kind


def turn_trace(history: list) -> list[str]:
    out: list[str] = []
    cur = None
    items: list[str] = []
    for ev in history:
        if ev[3] in ("audit", "run_end", "dev_rx", "dev_tx", "send", "d2c_avail"):
            continue
        if ev[1] != cur:
            if items:
                out.append(",".join(items))
            cur = ev[1]
            items = []
        items.append(_ev_key(ev))
    if items:
        out.append(",".join(items))
    return out


def trace_hash(history: list) -> int:
    h = hashlib.blake2b(digest_size=8)
    for t in turn_trace(history):
        h.update(t.encode())
        h.update(b"|")
    return int.from_bytes(h.digest(), "big")


def nontrivial(run: Any) -> bool:
    if run.fired:
        return True
    cnt: dict = {}
    for ev in run.history:
        if ev[3] in _STIM:
            cnt[ev[1]] = cnt.get(ev[1], 0) + 1
            if cnt[ev[1]] >= 2:
                return True
    return False


def case_rng(seed: int, pid: str, tier: str, idx: int) -> random.Random:
    h = hashlib.sha256(f"{seed}/{pid}/{tier}/{idx}".encode()).digest()
    return random.Random(int.from_bytes(h[:8], "big"))


# ----------------------------------------------------------------------------------------
# worker
# ----------------------------------------------------------------------------------------

_CHECK: list[Any] = [None]


def _worker(args: tuple) -> dict:
    pid, tier, seed, idxs, budget_s, selftest = args
    from .engine import run_scenario
    from .checks import get_check

    faulthandler.dump_traceback_later(max(120.0, budget_s * 3), exit=True)
    check = get_check(pid)
    if os.environ.get("VERIF_REACH", "1") != "0":
        from . import reach
        from .env import REPO

        reach.start(os.path.join(REPO, "aioesphomeapi"))
    st: dict = {
        "evaluations": 0,
        "cases": 0,
        "hashes": set(),
        "fired": collections.Counter(),
        "probes": collections.Counter(),
        "reasons": collections.Counter(),
        "sim_time": 0.0,
        "turns": 0,
        "samples": [],
        "violations": [],
        "harness": [],
        "collateral": collections.Counter(),
        "nondeterminism": [],
        "cut_short": False,
        "extra": collections.Counter(),
    }
    t0 = time.monotonic()
    for idx in idxs:
        if time.monotonic() - t0 > budget_s:
            st["cut_short"] = True
            break
        rng = case_rng(seed, pid, tier, idx)
        st["cases"] += 1
        try:
            k = 0
            for scn in check.cases(rng, tier, idx):
                run = run_scenario(scn)
                st["evaluations"] += 1
                st["sim_time"] += run.sim_time
                st["turns"] += run.turns
                st["reasons"][run.reason] += 1
                for f, n in run.fired.items():
                    st["fired"][f] += n
                for f, n in run.probes.items():
                    st["probes"][f] += n
                if run.harness_errors:
                    st["harness"].append({"idx": idx, "k": k, "errors": run.harness_errors[:3], "scenario": scn})
                    k += 1
                    continue
                key = check.distinct_key(run, scn)
                if key is not None:
                    st["hashes"].add(key)
                viols = check.oracle(run, scn)
                if hasattr(check, "note"):
                    check.note(run, scn, st["extra"])
                if viols and len(st["violations"]) < 40:
                    seen = set()
                    for v in viols:
                        if v.key() in seen:
                            continue
                        seen.add(v.key())
                        st["violations"].append({"idx": idx, "k": k, "rule": v.rule, "disc": v.disc, "msg": v.msg, "scenario": scn})
                if len(st["samples"]) < 2 and (k % 7 == 1 or k == 0):
                    st["samples"].append(check.sample(run, scn))
                if selftest and st["evaluations"] <= selftest:
                    d1 = run.digest
                    d2 = run_scenario(scn).digest
                    if d1 != d2:
                        st["nondeterminism"].append({"idx": idx, "k": k, "scenario": scn})
                k += 1
        except Exception:
            st["harness"].append({"idx": idx, "k": -1, "errors": [traceback.format_exc()[-1500:]], "scenario": None})
    faulthandler.cancel_dump_traceback_later()
    st["hashes"] = list(st["hashes"])
    if os.environ.get("VERIF_REACH", "1") != "0":
        from . import reach

        st["reach"] = reach.collect()
    return st


# ----------------------------------------------------------------------------------------
# shrinking
# ----------------------------------------------------------------------------------------


def _candidates(scn: dict) -> Iterable[dict]:
    """Structurally smaller variants of a scenario, most aggressive first."""
    # drop events
    evs = scn.get("events", [])
    for i in range(len(evs) - 1, -1, -1):
        if evs[i].get("keep"):
            continue
        c = copy.deepcopy(scn)
        del c["events"][i]
        yield c
    # drop actors / steps
    acts = scn.get("actors", [])
    for i in range(len(acts) - 1, -1, -1):
        if len(acts) > 1:
            c = copy.deepcopy(scn)
            del c["actors"][i]
            yield c
        steps = acts[i].get("steps", [])
        for j in range(len(steps) - 1, -1, -1):
            if len(steps) > 1:
                c = copy.deepcopy(scn)
                del c["actors"][i]["steps"][j]
                yield c
    # drop device reply overrides / unsolicited
    dev = scn.get("device", {})
    for k in list(dev.get("replies", {})):
        c = copy.deepcopy(scn)
        del c["device"]["replies"][k]
        yield c
    for k in ("on_connect", "on_handshake"):
        if dev.get(k):
            for i in range(len(dev[k]) - 1, -1, -1):
                c = copy.deepcopy(scn)
                del c["device"][k][i]
                yield c
    # shrink message lists in events
    for i, ev in enumerate(evs):
        msgs = ev.get("act", {}).get("msgs") if isinstance(ev.get("act"), dict) else None
        if msgs and len(msgs) > 1:
            for j in range(len(msgs) - 1, -1, -1):
                c = copy.deepcopy(scn)
                del c["events"][i]["act"]["msgs"][j]
                yield c
    # network simplifications
    net = scn.get("net", {})
    if net.get("cuts", {}).get("mode", "coalesce") != "coalesce":
        c = copy.deepcopy(scn)
        c["net"]["cuts"] = {"mode": "coalesce"}
        yield c
    for k in ("d2c_latency", "c2d_latency"):
        if k in net:
            c = copy.deepcopy(scn)
            del c["net"][k]
            yield c
    # knobs to default
    for k in list(scn.get("knobs", {})):
        c = copy.deepcopy(scn)
        del c["knobs"][k]
        yield c
    # fewer addresses
    cl = scn.get("client") or {}
    if len(cl.get("addresses", [])) > 1:
        c = copy.deepcopy(scn)
        c["client"]["addresses"] = c["client"]["addresses"][:1]
        yield c


def shrink(check: Any, scn: dict, rule: str, disc: str, budget: int = 300) -> tuple[dict, dict]:
    from .engine import run_scenario

    def fails(s: dict) -> bool:
        try:
            run = run_scenario(s)
        except Exception:
            return False
        if run.harness_errors:
            return False
        return any(v.rule == rule and v.disc == disc for v in check.oracle(run, s))

    cur = scn
    tried = 0
    improved = True
    custom = getattr(check, "shrink_candidates", None)
    while improved and tried < budget:
        improved = False
        gens = [_candidates(cur)]
        if custom is not None:
            gens.insert(0, custom(cur))
        for g in gens:
            for c in g:
                if tried >= budget:
                    break
                tried += 1
                if fails(c):
                    cur = c
                    improved = True
                    break
            if improved:
                break
    return cur, {"tried": tried, "size_before": len(json.dumps(scn, default=str)), "size_after": len(json.dumps(cur, default=str))}


# ----------------------------------------------------------------------------------------
# known findings
# ----------------------------------------------------------------------------------------


def load_findings() -> list[dict]:
    path = os.path.join(VERIF, "known_findings.txt")
    out = []
    if not os.path.exists(path):
        return out
    for line in open(path, encoding="utf-8"):
        line = line.strip()
        if not line or line.startswith("#"):
            continue
        if line.startswith("finding:"):
            parts = line[len("finding:") :].split()
            d = {"kind": "finding", "text": line}
            rest = []
            for p in parts:
                if "=" in p and p.split("=", 1)[0] in ("property", "rule", "match") and p.split("=", 1)[0] not in d:
                    k, v = p.split("=", 1)
                    d[k] = v
                else:
                    rest.append(p)
            d["what"] = " ".join(rest)
            out.append(d)
    return out


def match_finding(findings: list[dict], pid: str, rule: str, disc: str) -> dict | None:
    for f in findings:
        if f.get("property") == pid and f.get("rule") == rule and f.get("match") == disc:
            return f
    return None


# ----------------------------------------------------------------------------------------
# replay
# ----------------------------------------------------------------------------------------


def replay_file(path: str) -> int:
    from .engine import run_scenario
    from .checks import get_check

    doc = json.load(open(path, encoding="utf-8"))
    check = get_check(doc["property"])
    run = run_scenario(doc["scenario"])
    if run.harness_errors:
        print(f"HARNESS-ERROR replay: {run.harness_errors[:2]}")
        return 2
    viols = check.oracle(run, doc["scenario"])
    same = [v for v in viols if v.rule == doc["rule"] and v.disc == doc["disc"]]
    print(f"replay {path}: digest={run.digest} expected={doc.get('digest')}")
    for v in viols:
        print(f"  violation rule={v.rule} disc={v.disc}: {v.msg}")
    if same:
        if doc.get("digest") and doc["digest"] != run.digest:
            print("  NOTE: same violation, different history digest (sources changed since the replay was written?)")
        f = match_finding(load_findings(), doc["property"], doc["rule"], doc["disc"])
        if f is not None:
            print(f"KNOWN-FINDING: property={doc['property']} {f['what']}")
            return 0
        print(f"VIOLATION property={doc['property']} replay={path}")
        return 1
    print("  not reproduced on this tree")
    return 0


def _fresh_digest(scn: dict, hashseed: str) -> str:
    env = dict(os.environ)
    env["PYTHONHASHSEED"] = hashseed
    p = subprocess.run(
        [sys.executable, "-B", os.path.join(VERIF, "sim", "cli.py"), "--digest"],
        input=json.dumps(scn).encode(),
        stdout=subprocess.PIPE,
        stderr=subprocess.PIPE,
        env=env,
        cwd=VERIF,
        timeout=120,
    )
    return p.stdout.decode().strip().splitlines()[-1] if p.stdout.strip() else "ERR:" + p.stderr.decode()[-300:]


# ----------------------------------------------------------------------------------------
# main driver
# ----------------------------------------------------------------------------------------


def run_check(pid: str, tier: str, seed: int, jobs: int | None = None, n_cases: int | None = None, write: bool = True) -> int:
    from .checks import get_check
    from .env import lib

    t_start = time.time()
    lib()  # import the library before forking
    check = get_check(pid)
    jobs = jobs or min(16, os.cpu_count() or 4)
    n = n_cases or (check.quick_cases if tier == "quick" else check.thorough_cases)
    budget = float(os.environ.get("VERIF_BUDGET_S", "240" if tier == "quick" else "2400"))
    # interleaved shards so every worker sees the whole index range
    shards = [list(range(k, n, jobs)) for k in range(jobs)]
    shards = [s for s in shards if s]
    selftest = 3 if tier == "quick" else 6
    print(f"[{pid}] tier={tier} seed={seed} cases={n} jobs={len(shards)} gen_version={GEN_VERSION}", flush=True)
    ctx = mp.get_context("fork")
    results = []
    harness_fail = []
    with cf.ProcessPoolExecutor(max_workers=len(shards), mp_context=ctx) as ex:
        futs = [ex.submit(_worker, (pid, tier, seed, s, budget, selftest)) for s in shards]
        for f in futs:
            try:
                results.append(f.result(timeout=budget * 4 + 300))
            except Exception as exc:
                harness_fail.append(f"worker died: {exc!r}")

    tot: dict = {"evaluations": 0, "cases": 0, "hashes": set(), "fired": collections.Counter(), "probes": collections.Counter(), "reasons": collections.Counter(), "sim_time": 0.0, "turns": 0, "samples": [], "violations": [], "harness": [], "nondeterminism": [], "cut_short": False, "extra": collections.Counter()}
    reach_hits: set = set()
    for r in results:
        reach_hits.update(tuple(x) for x in r.get("reach", ()))
        tot["evaluations"] += r["evaluations"]
        tot["cases"] += r["cases"]
        tot["hashes"].update(r["hashes"])
        tot["fired"].update(r["fired"])
        tot["probes"].update(r["probes"])
        tot["reasons"].update(r["reasons"])
        tot["extra"].update(r["extra"])
        tot["sim_time"] += r["sim_time"]
        tot["turns"] += r["turns"]
        tot["samples"].extend(r["samples"][:1])
        tot["violations"].extend(r["violations"])
        tot["harness"].extend(r["harness"])
        tot["nondeterminism"].extend(r["nondeterminism"])
        tot["cut_short"] = tot["cut_short"] or r["cut_short"]

    # determinism: fresh interpreter, different hash seed
    fresh_mismatch = []
    if not tot["harness"] and not harness_fail:
        from .engine import run_scenario

        k = 2 if tier == "quick" else 5
        rngs = [case_rng(seed, pid, tier, i) for i in range(min(k, n))]
        for i, rng in enumerate(rngs):
            try:
                scn = next(iter(check.cases(rng, tier, i)))
            except StopIteration:
                continue
            d0 = run_scenario(scn).digest
            d1 = _fresh_digest(scn, "12345" if i % 2 == 0 else "777")
            if d0 != d1:
                fresh_mismatch.append({"idx": i, "here": d0, "fresh": d1})

    # violations: group, shrink, replay files
    findings = load_findings()
    groups: dict = {}
    for v in sorted(tot["violations"], key=lambda v: (v["idx"], v["k"])):
        groups.setdefault((v["rule"], v["disc"]), v)
    exit_code = 0
    unlisted = 0
    known_lines = []
    os.makedirs(os.path.join(VERIF, "replays"), exist_ok=True)
    viol_summ = []
    for gi, ((rule, disc), v) in enumerate(sorted(groups.items())):
        f = match_finding(findings, pid, rule, disc)
        scn = v["scenario"]
        shr = {"tried": 0}
        if gi < 6:
            try:
                scn, shr = shrink(check, scn, rule, disc, budget=120 if f is not None else 300)
            except Exception as exc:
                shr = {"error": repr(exc)}
        from .engine import run_scenario

        run = run_scenario(scn)
        msgs = [x.msg for x in check.oracle(run, scn) if x.rule == rule and x.disc == disc]
        doc = {
            "property": pid,
            "rule": rule,
            "disc": disc,
            "message": msgs[0] if msgs else v["msg"],
            "seed": seed,
            "tier": tier,
            "case_index": v["idx"],
            "gen_version": GEN_VERSION,
            "digest": run.digest,
            "shrink": shr,
            "scenario": scn,
            "turn_trace": turn_trace(run.history)[-30:],
        }
        name = f"{pid}-{rule}-{hashlib.sha1((disc + json.dumps(scn, sort_keys=True, default=str)).encode()).hexdigest()[:10]}.json"
        path = os.path.join(VERIF, "replays", name)
        # (the replay file is written also under --no-write: a reported path must exist; only evidence is withheld there)
        os.makedirs(os.path.dirname(path), exist_ok=True)
        with open(path, "w", encoding="utf-8") as fh:
            json.dump(doc, fh, indent=1, default=str)
        # replay once more in a fresh interpreter
        fresh = _fresh_digest(scn, "4242")
        doc_ok = fresh == run.digest
        viol_summ.append({"rule": rule, "disc": disc, "msg": doc["message"], "replay": path, "fresh_replay_same_digest": doc_ok, "known": f is not None})
        if f is not None:
            known_lines.append(f"KNOWN-FINDING: property={pid} {f['what']} (rule={rule} match={disc} replay={path})")
        else:
            unlisted += 1
            print(f"VIOLATION property={pid} replay={path}")
            print(f"  rule={rule} disc={disc}: {doc['message']}")
            exit_code = 1
    for l in known_lines:
        print(l)

    harness_msgs = list(harness_fail)
    for h in tot["harness"][:5]:
        harness_msgs.append(f"case {h['idx']}/{h['k']}: {h['errors'][:1]}")
    if tot["nondeterminism"]:
        harness_msgs.append(f"same-process re-run digests differ for {len(tot['nondeterminism'])} scenario(s)")
    if fresh_mismatch:
        harness_msgs.append(f"fresh-interpreter digests differ: {fresh_mismatch[:2]}")
    if tot["evaluations"] == 0:
        harness_msgs.append("no scenario was executed")

    wall = time.time() - t_start
    n_distinct = len(tot["hashes"])
    cov = {
        "evaluations": tot["evaluations"],
        "distinct_nontrivial": n_distinct,
        "rule": check.rule_text
        or "cases are generated from sha256(seed, property, tier, index); a case is one scenario or a fault sweep over one baseline; "
        "distinct = distinct turn-trace hash (per event-loop turn, the ordered kinds of callbacks/observations that ran in it, values abstracted); "
        "non-trivial = the run fired at least one injected fault or had >= 2 independent stimuli (I/O deliveries, caller actions) in one turn",
        "samples": tot["samples"][:3] or [{"note": "no sample"}],
        "cases": tot["cases"],
        "runs_per_hour": int(tot["evaluations"] / max(wall, 1e-6) * 3600),
        "simulated_seconds": round(tot["sim_time"], 3),
        "turns": tot["turns"],
        "faults_fired": dict(sorted(tot["fired"].items())),
        "probes": dict(sorted(tot["probes"].items())),
        "end_reasons": dict(tot["reasons"]),
        "components_real": check.real,
        "components_stub": check.stub,
        "determinism_selftest": {"same_process_reruns_mismatch": len(tot["nondeterminism"]), "fresh_interpreter_mismatch": len(fresh_mismatch)},
        "budget_cut_short": tot["cut_short"],
        "violations_detail": viol_summ[:10],
        "known_findings_matched": len(known_lines),
        "oracle_notes": dict(sorted(tot["extra"].items())),
    }
    if reach_hits:
        from . import reach
        from .env import REPO

        per = reach.summarise(os.path.join(REPO, "aioesphomeapi"), reach_hits)
        cov["library_line_reach"] = {
            "measure": "lines of function bodies of the library executed at least once by this batch (sys.monitoring LINE events; observational only) / all such lines of the file",
            "files": {f: f"{d['reached']}/{d['function_lines']}" for f, d in per.items()},
        }
        if write:
            os.makedirs(os.path.join(VERIF, "reach"), exist_ok=True)
            with open(os.path.join(VERIF, "reach", f"{pid}-{tier}.json"), "w", encoding="utf-8") as fh:
                json.dump(per, fh, indent=1)
    cov.update(check.extra_evidence(tot))
    ev = {
        "property_id": pid,
        "tier": tier,
        "seed": seed,
        "level": check.level,
        "coverage": cov,
        "assumptions": check.assumptions
        or ["CPython asyncio, cryptography, protobuf, noise, async_interrupt, aiohappyeyeballs are trusted", "the simulator samples schedules: a clean batch is evidence, not proof"],
        "wall_s": round(wall, 2),
        "violations": unlisted,
    }
    if write:
        os.makedirs(os.path.join(VERIF, "evidence"), exist_ok=True)
        with open(os.path.join(VERIF, "evidence", f"{pid}.json"), "w", encoding="utf-8") as fh:
            json.dump(ev, fh, indent=1, default=str)
    print(f"[{pid}] evaluations={tot['evaluations']} distinct_nontrivial={n_distinct} sim_s={tot['sim_time']:.0f} wall={wall:.1f}s faults={sum(tot['fired'].values())} violations={unlisted} known={len(known_lines)}", flush=True)
    if harness_msgs:
        for m in harness_msgs:
            print(f"HARNESS-ERROR {pid}: {m}")
        return 2 if exit_code == 0 else exit_code
    if tot["cut_short"]:
        print(f"[{pid}] note: wall budget reached before all cases ran; coverage numbers are what actually ran")
    return exit_code
