"""Independent wire layer used by the simulated device and by the oracles.

Nothing in here imports the client's framing or crypto glue:

* message ids / directions are parsed from the *text* of api.proto,
* the plaintext codec is written from the comment block in api.proto,
* the Noise responder (Noise_NNpsk0_25519_ChaChaPoly_SHA256) is written from the
  Noise specification on `cryptography` primitives only.

Payload (de)serialisation uses the generated api_pb2 classes (trusted base).
"""
from __future__ import annotations

import hashlib
import hmac
import os
import re
import struct

from cryptography.hazmat.primitives.asymmetric.x25519 import (
    X25519PrivateKey,
    X25519PublicKey,
)
from cryptography.hazmat.primitives.ciphers.aead import ChaCha20Poly1305
from cryptography.hazmat.primitives import serialization

# ----------------------------------------------------------------------------------------
# api.proto text -> ids, directions
# ----------------------------------------------------------------------------------------

_MSG_RE = re.compile(r"^message\s+(\w+)\s*\{(.*?)^\}", re.S | re.M)


class ProtoTable:
    """id <-> message name <-> source, from api.proto text."""

    def __init__(self, proto_path: str) -> None:
        text = open(proto_path, encoding="utf-8").read()
        self.by_id: dict[int, str] = {}
        self.by_name: dict[str, int] = {}
        self.source: dict[str, str] = {}
        for m in _MSG_RE.finditer(text):
            name, body = m.group(1), m.group(2)
            mid = re.search(r"option\s*\(id\)\s*=\s*(\d+)\s*;", body)
            if not mid:
                continue
            i = int(mid.group(1))
            src = re.search(r"option\s*\(source\)\s*=\s*(\w+)\s*;", body)
            self.by_id[i] = name
            self.by_name[name] = i
            self.source[name] = src.group(1) if src else "SOURCE_BOTH"
        if not self.by_id:
            raise RuntimeError("no message ids found in api.proto")
        self.max_id = max(self.by_id)

    def server_types(self) -> list[str]:
        return [n for n, s in self.source.items() if s in ("SOURCE_SERVER", "SOURCE_BOTH")]

    def client_types(self) -> list[str]:
        return [n for n, s in self.source.items() if s in ("SOURCE_CLIENT", "SOURCE_BOTH")]


# ----------------------------------------------------------------------------------------
# plaintext framing
# ----------------------------------------------------------------------------------------


def enc_varuint(v: int) -> bytes:
    if v < 0:
        raise ValueError("negative varuint")
    out = bytearray()
    while True:
        b = v & 0x7F
        v >>= 7
        if v:
            out.append(b | 0x80)
        else:
            out.append(b)
            return bytes(out)


def plain_frame(msg_type: int, payload: bytes) -> bytes:
    return b"\x00" + enc_varuint(len(payload)) + enc_varuint(msg_type) + payload


class WireError(Exception):
    """The byte stream does not conform to the documented format."""


class PlainDecoder:
    """Strict incremental decoder of the plaintext format (C02's oracle).

    Strict: the preamble must be the single byte 0x00, varints must be minimal
    (no redundant continuation groups) and at most 10 bytes long.
    """

    def __init__(self) -> None:
        self.buf = bytearray()
        self.frames: list[tuple[int, bytes]] = []

    def _varuint(self, pos: int) -> tuple[int, int] | None:
        result = 0
        shift = 0
        start = pos
        while pos < len(self.buf):
            b = self.buf[pos]
            pos += 1
            result |= (b & 0x7F) << shift
            if not b & 0x80:
                if pos - start > 1 and b == 0:
                    raise WireError("non-minimal varint")
                return result, pos
            shift += 7
            if pos - start >= 10:
                raise WireError("varint too long")
        return None

    def feed(self, data: bytes) -> list[tuple[int, bytes]]:
        self.buf += data
        out = []
        while self.buf:
            if self.buf[0] != 0:
                raise WireError(f"bad preamble {self.buf[0]:#x}")
            r = self._varuint(1)
            if r is None:
                break
            length, pos = r
            r = self._varuint(pos)
            if r is None:
                break
            mtype, pos = r
            if len(self.buf) < pos + length:
                break
            payload = bytes(self.buf[pos : pos + length])
            del self.buf[: pos + length]
            out.append((mtype, payload))
        self.frames.extend(out)
        return out


# ----------------------------------------------------------------------------------------
# Noise_NNpsk0_25519_ChaChaPoly_SHA256 responder, from the specification
# ----------------------------------------------------------------------------------------

PROTOCOL_NAME = b"Noise_NNpsk0_25519_ChaChaPoly_SHA256"
PROLOGUE = b"NoiseAPIInit\x00\x00"


def _hmac(key: bytes, data: bytes) -> bytes:
    return hmac.new(key, data, hashlib.sha256).digest()


def _hkdf(ck: bytes, ikm: bytes, n: int) -> list[bytes]:
    temp = _hmac(ck, ikm)
    outs = []
    prev = b""
    for i in range(1, n + 1):
        prev = _hmac(temp, prev + bytes([i]))
        outs.append(prev)
    return outs


def _nonce(n: int) -> bytes:
    return b"\x00\x00\x00\x00" + struct.pack("<Q", n)


class _Cipher:
    def __init__(self, key: bytes | None = None) -> None:
        self.k = key
        self.n = 0

    def enc(self, ad: bytes, pt: bytes) -> bytes:
        if self.k is None:
            return pt
        ct = ChaCha20Poly1305(self.k).encrypt(_nonce(self.n), pt, ad)
        self.n += 1
        return ct

    def dec(self, ad: bytes, ct: bytes) -> bytes:
        if self.k is None:
            return ct
        pt = ChaCha20Poly1305(self.k).decrypt(_nonce(self.n), ct, ad)
        self.n += 1
        return pt


class NoiseAuthError(Exception):
    pass


class NoiseResponder:
    """Responder side of NNpsk0: -> psk, e ; <- e, ee."""

    def __init__(self, psk: bytes, eph_seed: bytes | None = None) -> None:
        assert len(psk) == 32
        self.psk = psk
        if len(PROTOCOL_NAME) <= 32:
            self.h = PROTOCOL_NAME + b"\x00" * (32 - len(PROTOCOL_NAME))
        else:
            self.h = hashlib.sha256(PROTOCOL_NAME).digest()
        self.ck = self.h
        self.c = _Cipher()
        self._mix_hash(PROLOGUE)
        if eph_seed is None:
            eph_seed = os.urandom(32)
        # deterministic ephemeral key: the scenario supplies the seed
        self.e = X25519PrivateKey.from_private_bytes(hashlib.sha256(b"eph" + eph_seed).digest())
        self.send: _Cipher | None = None  # responder -> initiator
        self.recv: _Cipher | None = None  # initiator -> responder

    def _mix_hash(self, data: bytes) -> None:
        self.h = hashlib.sha256(self.h + data).digest()

    def _mix_key(self, ikm: bytes) -> None:
        self.ck, k = _hkdf(self.ck, ikm, 2)
        self.c = _Cipher(k)

    def _mix_key_and_hash(self, ikm: bytes) -> None:
        self.ck, th, k = _hkdf(self.ck, ikm, 3)
        self._mix_hash(th)
        self.c = _Cipher(k)

    def read_msg1(self, msg: bytes) -> bytes:
        """-> psk, e (+ payload). Raises NoiseAuthError on MAC failure."""
        self._mix_key_and_hash(self.psk)
        if len(msg) < 32:
            raise NoiseAuthError("short message 1")
        re_pub = msg[:32]
        self.re = X25519PublicKey.from_public_bytes(re_pub)
        self._mix_hash(re_pub)
        self._mix_key(re_pub)  # psk modifier: e is mixed into ck as well
        try:
            pt = self.c.dec(self.h, msg[32:])
        except Exception as exc:  # InvalidTag
            raise NoiseAuthError("Handshake MAC failure") from exc
        self._mix_hash(msg[32:])
        return pt

    def write_msg2(self, payload: bytes = b"") -> bytes:
        """<- e, ee (+ payload); afterwards the transport ciphers exist."""
        e_pub = self.e.public_key().public_bytes(
            serialization.Encoding.Raw, serialization.PublicFormat.Raw
        )
        self._mix_hash(e_pub)
        self._mix_key(e_pub)
        self._mix_key(self.e.exchange(self.re))
        ct = self.c.enc(self.h, payload)
        self._mix_hash(ct)
        k1, k2 = _hkdf(self.ck, b"", 2)
        self.recv = _Cipher(k1)  # initiator -> responder
        self.send = _Cipher(k2)  # responder -> initiator
        return e_pub + ct


def noise_outer(frame: bytes) -> bytes:
    if len(frame) > 0xFFFF:
        raise ValueError("noise frame too long")
    return b"\x01" + struct.pack(">H", len(frame)) + frame


def noise_inner(msg_type: int, payload: bytes) -> bytes:
    return struct.pack(">HH", msg_type & 0xFFFF, len(payload) & 0xFFFF) + payload


class NoiseOuterDecoder:
    """Strict decoder of the outer 0x01 + BE16 length framing."""

    def __init__(self) -> None:
        self.buf = bytearray()

    def feed(self, data: bytes) -> list[bytes]:
        self.buf += data
        out = []
        while len(self.buf) >= 3:
            if self.buf[0] != 1:
                raise WireError(f"bad noise marker {self.buf[0]:#x}")
            ln = (self.buf[1] << 8) | self.buf[2]
            if len(self.buf) < 3 + ln:
                break
            out.append(bytes(self.buf[3 : 3 + ln]))
            del self.buf[: 3 + ln]
        return out
