"""Shared scenario generation for the session family (swarm style) and the close-cause catalogue."""
from __future__ import annotations

import base64
import copy
import random
from typing import Any

ADDRS = ["10.0.0.5", "10.0.0.6", "fd00::5", "10.0.0.7"]
STATE_CHAIN = ["INITIALIZED", "SOCKET_OPENED", "HANDSHAKE_COMPLETE", "CONNECTED"]


def pick(rng: random.Random, items: list, weights: list | None = None) -> Any:
    return rng.choices(items, weights=weights, k=1)[0] if weights else rng.choice(items)


def gen_knobs(rng: random.Random) -> dict:
    k: dict = {}
    # swarm: each knob is left at its default in a good share of the runs
    if rng.random() < 0.5:
        k["rx_type"] = pick(rng, ["bytes", "bytearray", "memoryview", "bytearray_reused", "memoryview_reused", "memoryview_slice", "memoryview_wide", "memoryview_strided"])
    if rng.random() < 0.4:
        k["handler_order"] = "lifo"
    if rng.random() < 0.2:
        k["debug"] = True
    if rng.random() < 0.3:
        k["eager"] = False
    if rng.random() < 0.3:
        k["rst_discards"] = False
    if rng.random() < 0.2:
        k["fd_order"] = "desc"
    if rng.random() < 0.1:
        k["rcvbuf_limit"] = pick(rng, [100000, 300000, 1048576])
    if rng.random() < 0.12:
        # uvloop-style transport: write() on a closing / lost transport raises synchronously
        k["write_raises"] = pick(rng, ["RuntimeError", "OSError"])
    return k


def gen_cuts(rng: random.Random) -> dict:
    r = rng.random()
    if r < 0.45:
        return {"mode": "coalesce"}
    if r < 0.6:
        return {"mode": "sends"}
    sizes = [pick(rng, [1, 1, 2, 3, 5, 8, 13, 21, 64, 300]) for _ in range(rng.randint(1, 5))]
    c = {"mode": "sizes", "sizes": sizes}
    if rng.random() < 0.3:
        c["gap"] = pick(rng, [0.0005, 0.01])
    return c


def gen_net(rng: random.Random, addrs: list[str]) -> dict:
    net: dict = {
        "c2d_latency": pick(rng, [0.0, 0.001, 0.001, 0.01, 0.05]),
        "d2c_latency": [pick(rng, [0.0, 0.001, 0.001, 0.02]) for _ in range(rng.randint(1, 3))],
        "cuts": gen_cuts(rng),
    }
    plans = {}
    for i, a in enumerate(addrs):
        last = i == len(addrs) - 1
        if not last and rng.random() < 0.5:
            outcome = pick(rng, ["refused", "unreachable", "hang", "ok"])
        else:
            outcome = "ok"
        plans[a] = [{"outcome": outcome, "latency": pick(rng, [0.0, 0.001, 0.02, 0.15, 0.25])}]
    net["connect"] = plans
    return net


def gen_transport(rng: random.Random, client: dict, device: dict, noise_p: float = 0.35) -> None:
    if rng.random() < noise_p:
        psk = base64.b64encode(bytes(rng.getrandbits(8) for _ in range(32))).decode()
        client["noise_psk"] = psk
        device["transport"] = "noise"
        device["psk"] = psk
        device["eph_seed"] = "%08x" % rng.getrandbits(32)
        if rng.random() < 0.05:
            # (first connection only) an ephemeral public key that starts or ends with a zero byte
            device["eph_seed"] = pick(rng, ["ce", "169", "1d8", "22a", "14c7d", "25", "6f"])
        if rng.random() < 0.2:
            device["noise_hello_name"] = False


def gen_client(rng: random.Random, max_addrs: int = 3) -> dict:
    n = pick(rng, [1, 1, 2, 3][: max_addrs + 1])
    addrs = rng.sample(ADDRS, n)
    c: dict = {"addresses": addrs, "keepalive": pick(rng, [20.0, 20.0, 5.0, 1.5, 60.0])}
    if rng.random() < 0.3:
        c["expected_name"] = "simdev"
    if rng.random() < 0.3:
        c["password"] = "pw"
    return c


def steady_ops(rng: random.Random, n: int) -> list[dict]:
    ops = []
    for _ in range(n):
        r = rng.random()
        if r < 0.25:
            ops.append({"do": "device_info"})
        elif r < 0.45:
            ops.append({"do": "list_entities"})
        elif r < 0.6:
            ops.append({"do": "subscribe_states"})
        elif r < 0.7:
            ops.append({"do": "switch_command", "key": 1, "state": bool(rng.getrandbits(1))})
        elif r < 0.8:
            ops.append({"do": "subscribe_logs"})
        else:
            ops.append({"do": "sleep", "d": pick(rng, [0.0, 0.001, 0.5, 3.0])})
    return ops


def gen_session(rng: random.Random, noise_p: float = 0.35, max_addrs: int = 3, long_p: float = 0.3) -> dict:
    """A fault-free baseline: connect, some traffic, (maybe) keepalive, graceful disconnect."""
    client = gen_client(rng, max_addrs)
    device: dict = {}
    gen_transport(rng, client, device, noise_p)
    login = rng.random() < 0.6
    K = client["keepalive"]
    main: list[dict] = []
    if rng.random() < 0.6:
        main.append({"do": "connect", "login": login})
    else:
        main.append({"do": "start"})
        if rng.random() < 0.3:
            main.append({"do": "sleep", "d": pick(rng, [0.0, 0.01])})
        main.append({"do": "finish", "login": login})
    main += steady_ops(rng, rng.randint(0, 4))
    if rng.random() < long_p:
        main.append({"do": "sleep", "d": K * pick(rng, [1.2, 2.5])})
    else:
        main.append({"do": "sleep", "d": pick(rng, [0.0, 0.01, 0.3])})
    main.append({"do": "disconnect", "force": rng.random() < 0.15})
    actors = [{"id": "a0", "at": {"t": 0.0}, "steps": main}]
    if rng.random() < 0.35:
        # a second actor issuing requests while the session is up
        ops = [{"do": pick(rng, ["device_info", "list_entities"])} for _ in range(rng.randint(1, 2))]
        actors.append({"id": "a1", "at": {"on": "state", "match": {"new": "CONNECTED"}}, "steps": ops})
    events = []
    if rng.random() < 0.5:
        # unsolicited device traffic once connected
        n = rng.randint(1, 3)
        for j in range(n):
            msgs = []
            for _ in range(rng.randint(1, 3)):
                msgs.append(pick(rng, [["SwitchStateResponse", {"key": 1, "state": True}], ["SensorStateResponse", {"key": 2, "state": 1.5}], ["PingRequest", {}], ["GetTimeRequest", {}], ["PingResponse", {}], ["DisconnectResponse", {}]]))  # (the last one unsolicited: nobody asked)
            events.append({"at": {"on": "state", "match": {"new": "CONNECTED"}, "delay": pick(rng, [0.0005, 0.002, 0.2, 1.0]) * (j + 1)}, "do": "dev", "act": {"msgs": msgs}})
    if rng.random() < 0.25:
        device["reply_delay"] = pick(rng, [0.001, 0.05, 0.4])
    scn = {
        "family": "session",
        "knobs": gen_knobs(rng),
        "client": client,
        "device": device,
        "net": gen_net(rng, client["addresses"]),
        "actors": actors,
        "events": events,
        "end": 400.0,
    }
    return scn


def make_rejecting(scn: dict, rng: random.Random, kind: str | None = None) -> str:
    """Turn a baseline into one whose connect attempt is refused by a verdict (name, version, password, key, framing):
    the library closes on its own, and an injected cause may fall into the very turn in which it does."""
    client, device = scn["client"], scn["device"]
    noise = "noise_psk" in client
    kinds = ["name", "name", "major", "password", "framing"] + (["key", "name"] if noise else [])
    kind = kind or pick(rng, kinds)
    if kind == "name":
        client["expected_name"] = pick(rng, ["other", "simdev2", "Simdev"])
    elif kind == "major":
        device.setdefault("hello", {})["api_version_major"] = pick(rng, [0, 2, 3])
    elif kind == "password":
        device["invalid_password"] = True
        for a in scn["actors"]:
            for st in a["steps"]:
                if st["do"] in ("connect", "finish"):
                    st["login"] = True
    elif kind == "key":
        device["psk"] = base64.b64encode(bytes(rng.getrandbits(8) for _ in range(32))).decode()
    else:
        if noise:
            device.pop("transport", None)
            device.pop("psk", None)
        else:
            device["transport"] = "noise"
            device["psk"] = base64.b64encode(bytes(rng.getrandbits(8) for _ in range(32))).decode()
            device["eph_seed"] = "%08x" % rng.getrandbits(32)
    return kind


# ----------------------------------------------------------------------------------------
# close causes
# ----------------------------------------------------------------------------------------

TRAILERS = [
    [],
    [["SwitchStateResponse", {"key": 1, "state": False}]],
    [["PingRequest", {}]],
    [["SensorStateResponse", {"key": 2, "state": 2.5}], ["PingRequest", {}]],
]

CAUSES = [
    "fin",
    "rst",
    "eio",
    "etimedout",
    "garbage",
    "dev_disconnect",
    "dev_disconnect_trailing",
    "bad_payload",
    "force_disconnect",
    "disconnect",
    "cancel",
    "tx_error",
    "requires_encryption",
    "write_raise",
    "tx_stall",
]


def cause_event(cause: str, trigger: dict, phase: str, rng: random.Random | None = None, noise: bool = False) -> list[dict]:
    """Scenario events realising a close cause at a trigger."""
    t = dict(trigger)
    if cause in ("fin", "rst", "eio", "etimedout"):
        return [{"at": t, "do": "fault", "kind": cause, "latency": 0.0, "cause": cause}]
    if cause == "garbage":
        raw = "ff" * 6 if not noise else "0300aa"
        if not noise and rng is not None and rng.random() < 0.4:
            # a wrong marker byte in front of what would otherwise be a complete frame (a ping / a state message): the
            # connection ends at the marker, whatever follows it in the chunk is not a message any more
            raw = pick(rng, ["05", "7f", "03"]) + pick(rng, ["0007", "0009", "021a0801", "0532" + "0d0000803f1001"[:10]])
        return [{"at": t, "do": "dev", "act": {"raw_hex": raw, "latency": 0.0}, "cause": cause}]
    if cause == "requires_encryption":
        raw = "010000" if not noise else "00000a"
        return [{"at": t, "do": "dev", "act": {"raw_hex": raw, "latency": 0.0}, "cause": cause}]
    if cause == "dev_disconnect":
        if rng is not None and rng.random() < 0.25:
            # the request of a newer firmware: it carries a field this client does not know (protobuf keeps unknown fields)
            return [{"at": t, "do": "dev", "act": {"msgs": [{"type": 5, "payload_hex": pick(rng, ["0801", "120161"])}], "latency": 0.0}, "cause": cause}]
        return [{"at": t, "do": "dev", "act": {"msgs": [["DisconnectRequest", {}]], "latency": 0.0}, "cause": cause}]
    if cause == "dev_disconnect_trailing":
        tr = TRAILERS[rng.randrange(1, len(TRAILERS))] if rng else TRAILERS[1]
        return [{"at": t, "do": "dev", "act": {"msgs": [["DisconnectRequest", {}]] + tr, "latency": 0.0}, "cause": cause}]
    if cause == "bad_payload":
        # DeviceInfoResponse (id 10) with a truncated length-delimited field
        return [{"at": t, "do": "dev", "act": {"msgs": [{"type": 10, "payload_hex": "0aff01", "name": "#bad_payload"}], "latency": 0.0}, "cause": cause}]
    if cause == "force_disconnect":
        return [{"at": t, "do": "poke", "what": "force_disconnect", "phase": phase, "cause": cause}]
    if cause == "disconnect":
        return [{"at": t, "do": "start_actor", "actor": "closer", "phase": phase, "cause": cause}]
    if cause == "cancel":
        return [{"at": t, "do": "poke", "what": "cancel", "target": "a0", "phase": phase, "cause": cause}]
    if cause == "tx_error":
        return [{"at": t, "do": "fault", "kind": "tx_error", "err": "epipe", "cause": cause}]
    if cause == "write_raise":
        # from now on transport.write() raises synchronously (uvloop-style closed handler): the next thing the library
        # writes - a keepalive ping, a request, a reply to a device request - fails inside the writing call
        exc = (rng.choice(["RuntimeError", "OSError"]) if rng else "RuntimeError")
        return [{"at": t, "do": "fault", "kind": "write_raises", "always": True, "exc": exc, "cause": cause}]
    if cause == "tx_stall":
        # the device stops draining its socket for good: from now on everything the library writes piles up in the
        # transport's buffer, and whatever closes the connection later finds that buffer non-empty
        return [{"at": t, "do": "fault", "kind": "tx_block", "d": 3000.0, "cause": cause}]
    if cause == "stall":
        return [{"at": t, "do": "fault", "kind": "stall", "d": 200.0, "phase": phase, "cause": cause}]
    raise ValueError(cause)


def with_cause(scn: dict, cause: str, trigger: dict, phase: str, rng: random.Random | None = None) -> dict:
    s = copy.deepcopy(scn)
    # garbage is interpreted by the client: choose it for the framing the client speaks
    noise = bool((s.get("client") or {}).get("noise_psk"))
    s.setdefault("events", []).extend(cause_event(cause, trigger, phase, rng, noise))
    if cause == "disconnect" and not any(a["id"] == "closer" for a in s["actors"]):
        s["actors"].append({"id": "closer", "at": "manual", "steps": [{"do": "disconnect"}]})
    return s


def events_of(history: list, kind: str) -> list[tuple]:
    return [ev for ev in history if ev[3] == kind]
