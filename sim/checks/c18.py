"""C18 - reconnect manager: one attempt at a time, specified backoff, clean stop."""
from __future__ import annotations

import base64
import random
from typing import Any, Iterable

from ..runner import CheckBase, Violation
from .common import gen_knobs, pick
from .hist import Index

# an attempt begun during the last fault may still run into its own timeouts (resolve 30 + TCP 60 + handshake 30
# + hello 30), then the longest back-off (60) follows, then one fault-free connect
LIVENESS_WINDOW = 150.0 + 60.0 + 5.0
AUTH = {"RequiresEncryptionAPIError", "InvalidEncryptionKeyAPIError", "InvalidAuthAPIError"}
EPS = 1e-6


def backoff(n: int) -> int:
    return int(round(min(1.8 ** min(n, 10), 60.0)))


def reconnect_oracle(ix: Index, scn: dict) -> list[Violation]:
    out: list[Violation] = []
    h = ix.h
    # --- attempts --------------------------------------------------------------------
    attempts = []
    for c in ix.conns:
        sts = ix.states.get(c, [])
        a = {"conn": c, "t_new": sts[0][2] if sts else None, "seq_new": ix.conn_new_seq[c], "connected": c in ix.connected_seq, "t_closed": ix.closed_t.get(c), "seq_closed": ix.closed_seq.get(c), "turn_new": ix.seq_turn[ix.conn_new_seq[c]]}
        attempts.append(a)
    # R1: never two connection objects alive at once
    for i, a in enumerate(attempts):
        for b in attempts[:i]:
            if b["seq_closed"] is None or b["seq_closed"] > a["seq_new"]:
                out.append(Violation("two-attempts", "", f"{a['conn']} created at t={a['t_new']:.4f} while {b['conn']} was not closed"))
                break
    if ix.audit and ix.audit.get("max_live_device_sessions", 0) > 1:
        out.append(Violation("two-sessions", "", f"the device had {ix.audit['max_live_device_sessions']} live sessions at once"))
    # --- callbacks -------------------------------------------------------------------
    cbs = [ev for ev in h if ev[3] in ("rl_on_connect", "rl_on_disconnect")]
    last = "rl_on_disconnect"
    alternation = None  # (judged below, once the intervals of the recorded stop/start finding are known)
    for ev in cbs:
        if ev[3] == last:
            alternation = ev
            break
        last = ev[3]
    settled = ix.audit is not None and not ix.audit["tasks"]
    n_conn = sum(1 for a in attempts if a["connected"])
    n_conn_closed = sum(1 for a in attempts if a["connected"] and a["seq_closed"] is not None)
    n_on_connect = sum(1 for ev in cbs if ev[3] == "rl_on_connect")
    n_on_disc = sum(1 for ev in cbs if ev[3] == "rl_on_disconnect")
    end_t = ix.run_end[2] if ix.run_end else 0.0
    recent = any(a["connected"] and a["t_closed"] is not None and end_t - a["t_closed"] < 1.0 for a in attempts) or any(a["connected"] and end_t - ix.states[a["conn"]][-1][2] < 1.0 for a in attempts)
    if not recent:
        if n_on_connect != n_conn:
            out.append(Violation("on-connect-count", "", f"on_connect called {n_on_connect}x for {n_conn} established session(s)"))
        if n_on_disc != n_conn_closed:
            out.append(Violation("on-disconnect-count", "", f"on_disconnect called {n_on_disc}x for {n_conn_closed} ended session(s)"))
    # expected flag follows the connection's own stop flag
    stops = [e for c in ix.conns for e in ix.on_stop.get(c, [])]
    stops.sort()
    flags = [ev[4]["expected"] for ev in cbs if ev[3] == "rl_on_disconnect"]
    if flags != [e for _, e in stops][: len(flags)]:
        out.append(Violation("on-disconnect-flag", "", f"on_disconnect flags {flags} differ from the sessions' stop flags {[e for _, e in stops]}"))
    # --- control ops -----------------------------------------------------------------
    ctl = []  # (seq_start, seq_end, kind, t)
    for op in ix.ops:
        if op.do in ("rl.start", "rl.stop", "rl.stop_callback") and op.ok is not False:
            ctl.append((op.s0, op.s1 if op.s1 is not None else float("inf"), op.do, op.t0))
    records = [(ev[0], ev[2], ev[4]) for ev in h if ev[3] == "mdns_records"]

    def disturbed(s0: int, s1: int) -> bool:
        """a start/stop call or a delivered record between two history positions"""
        for a, b, kind, t in ctl:
            if a <= s1 and b >= s0:
                return True
        for seq, t, d in records:
            if s0 <= seq <= s1 and d["n_listeners"] > 0:
                return True
        return False

    # stop() while a session is alive followed by start() while it is still alive: the manager has
    # forgotten that the client is connected (known finding); violations inside such an interval are
    # attributed to it through their discriminator
    confused = []  # (seq_from, seq_to)
    for a in attempts:
        if not a["connected"]:
            continue
        s_conn = ix.connected_seq[a["conn"]]
        s_end = a["seq_closed"] if a["seq_closed"] is not None else float("inf")
        stops_in = [x for x in ctl if x[2] in ("rl.stop", "rl.stop_callback") and x[0] < s_end and (x[1] > s_conn or x[2] == "rl.stop_callback" and x[0] > a["seq_new"])]
        for st in stops_in:
            starts = [x for x in ctl if x[2] == "rl.start" and st[0] < x[0] < s_end]
            if starts:
                # the confusion lasts until a session is established by an attempt that was created after the manager has
                # processed the end of the forgotten session (its on_disconnect handling may be queued behind an attempt
                # that is already running - and that then succeeds - and only afterwards declares "disconnected")
                seq_d = next((ev[0] for ev in h if ev[3] == "rl_on_disconnect" and ev[0] > s_end), s_end)
                nxt_ok = next((ix.connected_seq[b["conn"]] for b in attempts if b["connected"] and b["seq_new"] > seq_d), float("inf"))
                confused.append((starts[0][0], nxt_ok))
                break

    def in_confusion(seq: int) -> bool:
        return any(a <= seq <= b for a, b in confused)

    if alternation is not None:
        ev = alternation
        out.append(Violation("callback-alternation", "stop-start-while-connected" if in_confusion(ev[0]) else ev[3], f"{ev[3]} at t={ev[2]:.4f} follows another {ev[3]}"))

    # R3: failed attempts reported; never more reports than failures
    errs = [ev for ev in h if ev[3] == "rl_on_error"]
    errs_done = [ev for ev in h if ev[3] == "rl_on_error_done"]
    failed = [a for a in attempts if not a["connected"] and a["seq_closed"] is not None]
    refused = [ev for ev in errs if "already connected" in (ev[4]["err"].get("text") or "").lower()]
    if len(errs) - len(refused) > len(failed):
        out.append(Violation("error-report-count", "more", f"{len(errs) - len(refused)} on_connect_error calls for {len(failed)} failed attempt(s)"))
    for ev in refused:
        alive = [a for a in attempts if a["connected"] and ix.connected_seq[a["conn"]] < ev[0] and (a["seq_closed"] is None or a["seq_closed"] > ev[0])]
        if alive:
            out.append(Violation("attempt-while-session-alive", "stop-start-while-connected" if in_confusion(ev[0]) else "other", f"the manager tried to connect at t={ev[2]:.4f} while session {alive[0]['conn']} was alive (client refused: {ev[4]['err']['text']!r})"))
            break
    # --- timing of clean waits ---------------------------------------------------------
    streak = 0
    streak_known = True
    auth_streak = False
    started_seq = [a for a, b, k, t in ctl if k == "rl.start"]
    for i, a in enumerate(attempts):
        nxt = attempts[i + 1] if i + 1 < len(attempts) else None
        # streak reset by an rl.start between the previous attempt and this one
        if any((attempts[i - 1]["seq_new"] if i else -1) < s < a["seq_new"] for s in started_seq):
            streak = 0
            streak_known = True
            auth_streak = False
        if a["connected"]:
            streak = 0
            streak_known = True
            auth_streak = False
            if a["seq_closed"] is not None and nxt is None:
                # the session ended and nothing follows: while started, an attempt is due at once / after the cool-down
                done0 = next((ev for ev in h if ev[3] == "rl_on_disconnect_done" and ev[0] > a["seq_closed"]), None)
                if done0 is not None and not _stopped_at(ctl, done0[0]) and not any(x[0] > done0[0] for x in ctl) and end_t - done0[2] > 5.0 + 1.0 and not in_confusion(a["seq_closed"]):
                    out.append(Violation("retry-missing", "after-session-end", f"session {a['conn']} ended, the disconnect callback returned at {done0[2]:.4f}, the manager is started, but no attempt followed until the end of the run at {end_t:.4f}"))
            if a["seq_closed"] is None or nxt is None:
                continue
            done = next((ev for ev in h if ev[3] == "rl_on_disconnect_done" and ev[0] > a["seq_closed"]), None)
            dev = next((ev for ev in h if ev[3] == "rl_on_disconnect" and ev[0] > a["seq_closed"]), None)
            if done is None or dev is None or done[0] > nxt["seq_new"]:
                continue
            if disturbed(a["seq_closed"], nxt["seq_new"]):
                continue
            # whether the end was expected is decided here, not taken from the callback's flag: a graceful disconnect had
            # been initiated (local disconnect call in CONNECTED / force, or the device's DisconnectRequest) before the close
            Tc = a["seq_closed"]
            calls = [(sq, force, stt) for sq, force, stt in ix.disc_calls.get(a["conn"], []) if sq <= Tc]
            reqs = [stt for sq, mtype, _dd, stt, _tu, _tt in ix.pp.get(a["conn"], []) if sq <= Tc and mtype == 5]
            must_exp = any(force or stt == "CONNECTED" for _sq, force, stt in calls) or any(stt in ("HANDSHAKE_COMPLETE", "CONNECTED") for stt in reqs)
            may_exp = bool(calls) or bool(reqs)
            allowed_w = {5.0} if must_exp else ({0.0} if not may_exp else {0.0, 5.0})
            got_w = nxt["t_new"] - done[2]
            if not any(abs(got_w - w) <= EPS for w in allowed_w):
                if in_confusion(a["seq_closed"]):
                    continue  # consequence of the known stop/start-while-connected confusion, reported once at its root
                out.append(Violation("retry-time", ("after-expected-end" if must_exp else "after-unexpected-end"), f"session ended ({'expected' if must_exp else 'unexpected'}: {len(calls)} local disconnect call(s), {len(reqs)} device request(s) before the close; callback flag {dev[4]['expected']}), disconnect callback returned at {done[2]:.6f}; next attempt at {nxt['t_new']:.6f}, want +{sorted(allowed_w)}"))
            continue
        if a["seq_closed"] is None:
            continue
        # failed attempt: was it reported?
        rep = next((ev for ev in errs if a["seq_new"] < ev[0] and (nxt is None or ev[0] < nxt["seq_new"])), None)
        rep_done = next((ev for ev in errs_done if rep is not None and ev[0] > rep[0]), None)
        clean_attempt = not disturbed(a["seq_new"], a["seq_closed"] + 3)
        if rep is None:
            if clean_attempt and (nxt is not None or end_t - a["t_closed"] > 1.0):
                out.append(Violation("error-report-count", "missing", f"failed attempt {a['conn']} (closed at {a['t_closed']:.4f}) was never reported to on_connect_error"))
            continue
        streak += 1
        cls = set(rep[4]["err"].get("mro", []))
        if cls & AUTH:
            auth_streak = True
        if nxt is None or rep_done is None or rep_done[0] > nxt["seq_new"]:
            continue
        if "APIConnectionCancelledError" in cls:
            streak_known = False
            continue
        if disturbed(a["seq_new"], nxt["seq_new"]):
            # a record that arrived during the wait (after the failure had been handled, nothing in flight) only brings the
            # next attempt forward: the count of consecutive failures goes on; anything else makes it unknown
            only_records_in_wait = not any(a_ <= nxt["seq_new"] and b_ >= a["seq_new"] for a_, b_, _k, _t in ctl) and all(sq > rep_done[0] for sq, _t, d_ in records if a["seq_new"] <= sq <= nxt["seq_new"] and d_["n_listeners"] > 0)
            if not only_records_in_wait:
                streak_known = False
            continue
        if not streak_known:
            continue
        allowed = {float(backoff(streak))}
        if auth_streak:
            allowed = {60.0} if cls & AUTH else {60.0, float(backoff(streak))}
        got = nxt["t_new"] - rep_done[2]
        if not any(abs(got - w) <= EPS for w in allowed):
            if in_confusion(a["seq_new"]):
                continue
            out.append(Violation("retry-time", ("backoff-auth" if auth_streak else "backoff"), f"failure #{streak} ({rep[4]['err']['cls']}) handled at {rep_done[2]:.6f}; next attempt after {got:.6f}s, want {sorted(allowed)}"))
    # --- mDNS record while waiting -------------------------------------------------------
    name = scn.get("rl_name", "mydev")
    for seq, t, d in records:
        if d["n_listeners"] <= 0:
            continue
        matching = any((r["type"] == "PTR" and r.get("alias") == f"{name}._esphomelib._tcp.local.") or (r["type"] == "A" and r.get("name") == f"{name}.local.") for r in d["records"])
        alive = [a for a in attempts if a["seq_new"] < seq and (a["seq_closed"] is None or a["seq_closed"] > seq)]
        stopped = _stopped_at(ctl, seq)
        in_ctl = any(a <= seq <= b for a, b, k, tt in ctl)
        later = [a for a in attempts if a["seq_new"] > seq]
        if in_confusion(seq):
            continue
        if matching and not alive and not stopped and not in_ctl:
            # waiting: an attempt must start at this very instant
            cb_busy = _callback_running(h, seq)
            if cb_busy:
                continue
            if not later or abs(later[0]["t_new"] - t) > EPS:
                out.append(Violation("record-not-immediate", "", f"matching mDNS record delivered at {t:.6f} while waiting; next attempt at {later[0]['t_new'] if later else None}"))
        other_matching_now = any(abs(t2 - t) <= EPS and d2["n_listeners"] > 0 and any((r["type"] == "PTR" and r.get("alias") == f"{name}._esphomelib._tcp.local.") or (r["type"] == "A" and r.get("name") == f"{name}.local.") for r in d2["records"]) for s2, t2, d2 in records)
        if not matching and not other_matching_now and not alive and later and abs(later[0]["t_new"] - t) <= EPS and ix.seq_turn[later[0]["seq_new"]] <= ix.seq_turn[seq] + 2:
            # a non-matching record must not trigger anything (unless a timer happened to fire right then)
            tm = _timer_due(h, attempts, later[0], t)
            if not tm:
                out.append(Violation("record-nonmatching-triggered", "", f"non-matching mDNS record at {t:.6f} was followed by an attempt in the same instant"))
    # --- listening (on a live instance) while waiting after a failure --------------------------
    if name:
        for seq, t, d in records:
            if in_confusion(seq) or d["n_listeners"] > 0:
                continue
            if not any((r["type"] == "PTR" and r.get("alias") == f"{name}._esphomelib._tcp.local.") or (r["type"] == "A" and r.get("name") == f"{name}.local.") for r in d["records"]):
                continue
            if _stopped_at(ctl, seq) or any(a <= seq <= b for a, b, k, tt in ctl) or _callback_running(h, seq):
                continue
            if scn.get("zc_unavailable"):
                continue  # (no instance could be created for part of the run: registration is not judged there)
            if any(a["seq_new"] < seq and (a["seq_closed"] is None or a["seq_closed"] > seq) for a in attempts):
                continue
            prev = [ev for ev in h if ev[0] < seq and ev[3] in ("rl_on_error_done", "rl_on_disconnect_done", "rl_on_connect")]
            if not prev or prev[-1][3] != "rl_on_error_done" or prev[-1][1] >= ix.seq_turn[seq] - 1:
                continue
            if any(a_ <= seq and b_ >= prev[-1][0] for a_, b_, _k, _t in ctl):
                continue  # a start()/stop() call since that failure: not a plain retry wait
            if any(prev[-1][0] < a["seq_new"] < seq for a in attempts):
                continue  # another attempt has run since (it has just died and its failure is about to be handled)
            # waiting for a retry after a handled failure, started, nothing running: the manager has to be registered
            later = [a for a in attempts if a["seq_new"] > seq]
            if later and abs(later[0]["t_new"] - prev[-1][2]) < 1.0 - 1e-9:
                continue  # an immediate retry (no wait, no listener needed) was already due
            out.append(Violation("not-listening-while-waiting", "", f"matching mDNS record at t={t:.4f} while the manager waits for its retry after the failure handled at {prev[-1][2]:.4f}, but it is not registered as listener on any open zeroconf instance"))
            break
    # --- never listening while a session is established -------------------------------------
    for seq, t, d in records:
        if d["n_listeners"] <= 0 or in_confusion(seq):
            continue
        est = [a for a in attempts if a["connected"] and ix.connected_seq[a["conn"]] < seq and (a["seq_closed"] is None or a["seq_closed"] > seq)]
        if est:
            out.append(Violation("listening-while-connected", "", f"the manager was registered as mDNS listener at t={t:.4f} while session {est[0]['conn']} was established"))
            break
    if ix.audit is not None and not confused:
        live_end = [a for a in attempts if a["connected"] and a["seq_closed"] is None]
        if live_end and any(z["listeners"] for z in ix.audit["zcs"]):
            out.append(Violation("listening-while-connected", "end", f"at the end of the run session {live_end[0]['conn']} is established and the manager is still registered as mDNS listener"))
    # --- stop ----------------------------------------------------------------------------
    for seq, t, d in records:
        # a record that finds the manager registered while it is stopped (stop() has returned, no start() since)
        before = [x for x in sorted(ctl) if x[0] <= seq]
        # (stop_callback() only schedules the stop: when that has finished is not visible to the caller)
        if d["n_listeners"] > 0 and before and before[-1][2] == "rl.stop" and before[-1][1] < seq:
            out.append(Violation("listening-after-stop", "record", f"mDNS record at t={t:.4f} was delivered to {d['n_listeners']} listener(s) although stop() had returned and start() was not called since"))
            break
    last_ctl = max(ctl, key=lambda x: x[0]) if ctl else None
    for a, b, kind, t in ctl:
        if kind != "rl.stop" or b == float("inf"):
            continue
        nxt_start = min((x[0] for x in ctl if x[2] == "rl.start" and x[0] > b), default=float("inf"))
        for at in attempts:
            if b < at["seq_new"] < nxt_start:
                out.append(Violation("attempt-after-stop", "", f"{at['conn']} started at {at['t_new']:.4f} after stop() had returned"))
                break
    if last_ctl is not None and last_ctl[2] == "rl.stop" and last_ctl[1] != float("inf") and ix.audit is not None:
        for z in ix.audit["zcs"]:
            if z["listeners"]:
                out.append(Violation("listening-after-stop", "", f"zeroconf {z['zc']} still has {z['listeners']} listener(s) after stop()"))
            if z["owner"] == "lib" and not z["closed"]:
                out.append(Violation("zeroconf-open-after-stop", "", f"library-created zeroconf {z['zc']} still open after stop()"))
    for ev in h:
        if ev[3] == "azc_close_begin" and ev[4]["owner"] == "app":
            out.append(Violation("supplied-zeroconf-closed", "", "the application's zeroconf instance was closed"))
    # --- bounded liveness ------------------------------------------------------------------
    tail = scn.get("healthy_from")
    if tail is not None and last_ctl is not None and last_ctl[2] == "rl.start" and end_t >= tail + LIVENESS_WINDOW and not confused:
        live = [a for a in attempts if a["connected"] and a["seq_closed"] is None]
        if not live:
            out.append(Violation("no-progress", "", f"manager started, device healthy and reachable since t={tail:.3f}, but no session is established at t={end_t:.3f}"))
    elif last_ctl is not None and last_ctl[2] == "rl.start" and last_ctl[1] != float("inf") and ix.run_end and ix.run_end[4].get("reason") == "quiescent" and not confused:
        # nothing is left to happen (no timer, no task, no I/O) although the manager is started: with no session alive it has
        # given up for good - whatever made its last attempt or its retry scheduling fail
        if not [a for a in attempts if a["connected"] and a["seq_closed"] is None]:
            out.append(Violation("no-progress", "dead", f"manager started (last start() at t={last_ctl[3]:.3f}), no session alive, and nothing left to happen at t={end_t:.3f}: it will never try again"))
    return out


def _stopped_at(ctl: list, seq: int) -> bool:
    st = True
    for a, b, kind, t in sorted(ctl):
        if a > seq:
            break
        if kind == "rl.start":
            st = False
        else:
            st = True
    return st


def _callback_running(h: list, seq: int) -> bool:
    depth = 0
    for ev in h:
        if ev[0] > seq:
            break
        if ev[3] in ("rl_on_error", "rl_on_disconnect", "rl_on_connect"):
            depth += 1
        elif ev[3] in ("rl_on_error_done", "rl_on_disconnect_done", "rl_on_connect_done"):
            depth -= 1
    return depth > 0


def _timer_due(h: list, attempts: list, nxt: dict, t: float) -> bool:
    # conservative: if any integer-second backoff from a handled failure or a 5 s cool-down lands on t, a timer may explain it
    for ev in h:
        if ev[3] in ("rl_on_error_done", "rl_on_disconnect_done") and ev[2] <= t:
            d = t - ev[2]
            if abs(d - round(d)) <= EPS:
                return True
    return False


def gen_c18(rng: random.Random) -> dict:
    name = "mydev"
    use_mdns_addr = rng.random() < 0.25
    client: dict = {"addresses": ["mydev.local" if use_mdns_addr else "10.0.0.5"], "keepalive": pick(rng, [20.0, 5.0]), "zeroconf": pick(rng, [None, None, "zeroconf", "async"])}
    device: dict = {}
    psk = None
    if rng.random() < 0.25:
        psk = base64.b64encode(bytes(rng.getrandbits(8) for _ in range(32))).decode()
        client["noise_psk"] = psk
        device.update({"transport": "noise", "psk": psk, "eph_seed": "%x" % rng.getrandbits(32)})
    if rng.random() < 0.3:
        client["expected_name"] = "simdev"
    if rng.random() < 0.4:
        client["password"] = "pw"
    T = pick(rng, [15.0, 40.0, 90.0, 200.0])
    net: dict = {"mdns": {"mydev": {"outcome": "ok", "v4": ["10.0.0.5"], "v6": [], "latency": pick(rng, [0.0, 0.05])}}, "c2d_latency": 0.001, "d2c_latency": [0.001]}
    # fault timeline before T
    connect_at = []
    persona_at = []
    t = 0.0
    while t < T:
        d = pick(rng, [1.0, 3.0, 7.0, 20.0, 65.0])
        kind = pick(rng, ["ok", "ok", "refused", "unreachable", "hang", "badpw", "badname", "needs_enc", "hello_silence", "slow", "netunreach_sync", "hs_reject"])
        t1 = min(T, t + d)
        if kind in ("refused", "unreachable", "hang", "netunreach_sync"):
            connect_at.append({"from": t, "to": t1, "outcome": kind, "latency": pick(rng, [0.0, 0.01, 0.5])})
        elif kind == "badpw":
            persona_at.append({"from": t, "to": t1, "cfg": {"invalid_password": True}})
        elif kind == "badname":
            persona_at.append({"from": t, "to": t1, "cfg": {"hello": {"name": "other"}, "noise_name": "other"}})
        elif kind == "needs_enc" and psk is None:
            persona_at.append({"from": t, "to": t1, "cfg": {"transport": "noise", "psk": base64.b64encode(b"k" * 32).decode(), "on_wire_error": "reply_noise_error"}})
        elif kind == "hs_reject" and psk is not None:
            # a noise handshake failure that is no key problem (reject text other than the MAC failure, odd server hello):
            # an ordinary failure for the back-off, not an authentication / encryption error
            persona_at.append({"from": t, "to": t1, "cfg": pick(rng, [{"noise_reject": pick(rng, ["Bad handshake packet len", "Handshake error"])}, {"noise_empty_hello": True}, {"noise_selector": 2}])})
        elif kind == "hello_silence":
            persona_at.append({"from": t, "to": t1, "cfg": {"replies": {"HelloRequest": ["silent"]}}})
        elif kind == "slow":
            persona_at.append({"from": t, "to": t1, "cfg": {"reply_delay": pick(rng, [0.5, 2.0])}})
        t = t1
    net["connect_at"] = connect_at
    device["persona_at"] = persona_at
    events = []
    # session enders
    for _ in range(rng.randint(0, 5)):
        te = rng.random() * T
        k = pick(rng, ["dev_disconnect", "fin", "rst", "dev_disconnect"])
        if k == "dev_disconnect":
            events.append({"at": {"t": te}, "do": "dev", "act": {"msgs": [["DisconnectRequest", {}]], "latency": 0.0}})
        else:
            events.append({"at": {"t": te}, "do": "fault", "kind": k, "latency": 0.0})
    # ... and right after a session was announced, while the on_connect callback may still be suspended
    for _ in range(rng.randint(0, 2)):
        k = pick(rng, ["dev_disconnect", "fin", "rst"])
        trig = {"on": "rl_on_connect", "nth": rng.randint(1, 3), "delay": pick(rng, [0.0, 0.01, 0.1, 0.3])}
        if k == "dev_disconnect":
            events.append({"at": trig, "do": "dev", "act": {"msgs": [["DisconnectRequest", {}]], "latency": 0.0}})
        else:
            events.append({"at": trig, "do": "fault", "kind": k, "latency": 0.0})
    # mDNS records: random instants and the instants of retry timers / callbacks
    for _ in range(rng.randint(0, 6)):
        pool = [{"type": "PTR", "alias": f"{name}._esphomelib._tcp.local."}, {"type": "A", "name": f"{name}.local."}, {"type": "PTR", "alias": "other._esphomelib._tcp.local."}, {"type": "A", "name": "other.local."}]
        rec = pick(rng, pool, [4, 3, 2, 1])
        # records of the other kinds a responder announces (service, text, IPv6 address), here of another device
        others = [{"type": "TXT", "name": "other._esphomelib._tcp.local."}, {"type": "SRV", "name": "other._esphomelib._tcp.local.", "server": "other.local."}, {"type": "AAAA", "name": "other.local."}]
        if rng.random() < 0.12:
            rec = pick(rng, others)
        if rng.random() < 0.3:
            rec = dict(rec, cached=True)  # an update of a record zeroconf still holds in its cache (old == new)
        recs = [rec]
        if rng.random() < 0.25:
            # one update carrying several records (the matching one, if any, not necessarily first)
            recs = [pick(rng, pool + others, [1, 1, 3, 3, 1, 1, 1]) for _ in range(rng.randint(1, 2))] + [rec]
            rng.shuffle(recs)
        r = rng.random()
        if r < 0.5:
            trig = {"t": rng.random() * (T + 30)}
        elif r < 0.75:
            trig = {"on": "rl_on_error_done", "nth": rng.randint(1, 4), "delay": pick(rng, [0.0, 0.5, 1.0, 2.0, 3.0, 6.0])}
        elif r < 0.9:
            trig = {"on": "sock_connect", "nth": rng.randint(1, 5), "delay": pick(rng, [0.0, 0.001, 0.2])}
        else:
            trig = {"on": "state", "match": {"new": pick(rng, ["SOCKET_OPENED", "CONNECTED"])}, "nth": rng.randint(1, 3), "delay": pick(rng, [0.0, 0.5])}
        events.append({"at": trig, "do": "fault", "kind": "mdns", "records": recs, "phase": pick(rng, ["pre", "post"])})
    # control script
    rl_zc = pick(rng, [None, None, "zeroconf", "async"]) if client["zeroconf"] is None else None
    late_name = (not use_mdns_addr) and rng.random() < 0.2
    steps: list[dict] = [{"do": "rl.new", "name": None if (use_mdns_addr or late_name) else name, **({"name_after": name} if late_name else {}), "zeroconf": rl_zc, "cb_delay": pick(rng, [{}, {}, {"error": 0.3}, {"disconnect": 0.7, "connect": 0.2}, {"error": 1.0, "disconnect": 0.1}, {"connect": 0.5}, {"connect": 2.0, "error": 0.1}])}, {"do": "rl.start"}]
    ends_started = True
    tt = 0.0
    for _ in range(rng.randint(0, 3)):
        dt = rng.random() * T / 2
        tt += dt
        steps.append({"do": "sleep", "d": dt})
        steps.append({"do": pick(rng, ["rl.stop", "rl.stop", "rl.stop_callback"])})
        dt = pick(rng, [0.0, 0.5, 3.0, 10.0])
        tt += dt
        steps.append({"do": "sleep", "d": dt})
        steps.append({"do": "rl.start"})
        if rng.random() < 0.2:
            # start() while already started (connecting, waiting or connected): must change nothing
            steps.append({"do": "sleep", "d": pick(rng, [0.0, 0.3, 4.0])})
            steps.append({"do": "rl.start"})
    if rng.random() < 0.3:
        steps.append({"do": "sleep", "d": max(0.0, T - tt) + pick(rng, [0.0, 10.0, 70.0])})
        steps.append({"do": "rl.stop"})
        ends_started = False
    actors_extra: list = []
    if ends_started and not any(st["do"] in ("rl.stop", "rl.stop_callback") for st in steps) and rng.random() < 0.5:
        # stop() lands inside an attempt: while it resolves / connects (cancelled at once) or while it handshakes (stop waits
        # for the attempt, which may well fail and run its failure path first); started again a little later
        anchor = pick(rng, [{"on": "sock_connect"}, {"on": "state", "match": {"new": "SOCKET_OPENED"}}, {"on": "state", "match": {"new": "HANDSHAKE_COMPLETE"}}, {"on": "state", "match": {"new": "HANDSHAKE_COMPLETE"}}])
        anchor.update({"nth": rng.randint(1, 4), "delay": pick(rng, [0.0, 0.001, 0.01, 0.3])})
        events.append({"at": anchor, "do": "start_actor", "actor": "stopper", "phase": pick(rng, ["pre", "post"])})
        gap = pick(rng, [0.0, 0.5, 3.0, 10.0])
        if rng.random() < 0.4:
            # ... or not at all: whatever the interrupted attempt still does on its way out, nothing may stay behind
            actors_extra.append({"id": "stopper", "at": "manual", "steps": [{"do": "rl.stop"}]})
            ends_started = False
        else:
            actors_extra.append({"id": "stopper", "at": "manual", "steps": [{"do": pick(rng, ["rl.stop", "rl.stop", "rl.stop_callback"])}, {"do": "sleep", "d": gap}, {"do": "rl.start"}]})
            tt = max(tt, T) + gap + 35.0
    if rng.random() < 0.3:
        # the application itself ends sessions while the manager runs (graceful or forced); the device may ignore the
        # DisconnectRequest and the TCP connection may die while the client still waits for the answer
        asteps: list = []
        for _ in range(rng.randint(1, 3)):
            asteps += [{"do": "sleep", "d": rng.random() * T / 2}, {"do": "disconnect", "force": rng.random() < 0.3}]
        actors_extra.append({"id": "app", "at": {"t": 0.5}, "steps": asteps})
        if rng.random() < 0.6:
            device["replies"] = {"DisconnectRequest": pick(rng, [["silent"], [{"msgs": [["DisconnectResponse", {}]], "delay": pick(rng, [0.3, 2.0])}]])}
            for nth in range(1, rng.randint(1, 3) + 1):
                events.append({"at": {"on": "op_start", "match": {"actor": "app", "do": "disconnect"}, "nth": nth, "delay": pick(rng, [0.01, 0.2, 1.0])}, "do": "fault", "kind": pick(rng, ["fin", "rst"]), "latency": 0.0})
    healthy_from = max(T, tt) + 0.001
    scn = {
        "family": "reconnect",
        "rl_name": name,
        "knobs": gen_knobs(rng),
        "client": client,
        "device": device,
        "net": net,
        "actors": [{"id": "a0", "at": {"t": 0.0}, "steps": steps}] + actors_extra,
        "events": events,
        "end": healthy_from + LIVENESS_WINDOW + 3.0,
        "max_time": 1e5,
    }
    if ends_started:
        scn["healthy_from"] = healthy_from
    if rng.random() < 0.25:
        scn["knobs"]["zc_close_delay"] = pick(rng, [0.1, 0.5])
    if client["zeroconf"] is None and rl_zc is None and rng.random() < 0.12:
        # for a while the host cannot open an mDNS socket (no usable interface yet, a container without host networking):
        # creating the zeroconf instance fails. The manager cannot listen then - it still retries by its timer
        scn["knobs"]["zc_create_fails"] = True
        scn["events"].append({"at": {"t": pick(rng, [0.5, 3.0, T / 2, T])}, "do": "fault", "kind": "knob", "name": "zc_create_fails", "value": False})
        scn["zc_unavailable"] = True
    return scn


def gen_queued_start_then_stop(rng: random.Random) -> dict:
    """stop() during a live session; the session ends and the application's slow on_disconnect callback holds the manager's
    lock; start() and then stop() are called meanwhile (both queue up behind the callback): when that last stop() has
    returned, nothing may start any more."""
    scn = gen_c18(random.Random(rng.getrandbits(32)))
    d = pick(rng, [0.7, 1.5, 3.0])
    t_stop = pick(rng, [1.0, 2.0])
    t_end = t_stop + pick(rng, [0.5, 1.0])
    t_start = t_end + pick(rng, [0.05, 0.3]) * d
    t_stop2 = t_start + pick(rng, [0.0, 0.001, 0.2 * d])
    scn["client"]["addresses"] = ["10.0.0.5"]
    scn["device"] = {k: v for k, v in scn["device"].items() if k in ("transport", "psk", "eph_seed")}
    scn["net"]["connect"] = {"10.0.0.5": [{"outcome": "ok", "latency": 0.001}]}
    scn["client"].pop("expected_name", None)
    rl_new = dict(scn["actors"][0]["steps"][0], cb_delay={"disconnect": d})
    scn["actors"] = [{"id": "a0", "at": {"t": 0.0}, "steps": [rl_new, {"do": "rl.start"}]},
                     {"id": "s1", "at": {"t": t_stop}, "steps": [{"do": "rl.stop"}]},
                     {"id": "s2", "at": {"t": t_start}, "steps": [{"do": "rl.start"}]},
                     {"id": "s3", "at": {"t": t_stop2}, "steps": [{"do": "rl.stop"}]}]
    scn["events"] = [{"at": {"t": t_end}, "do": "fault", "kind": pick(rng, ["fin", "rst"]), "latency": 0.0}]
    scn.pop("healthy_from", None)
    scn.pop("zc_unavailable", None)
    scn["knobs"].pop("zc_create_fails", None)
    scn["end"] = t_stop2 + d + 80.0
    return scn


class C18(CheckBase):
    pid = "C18"
    level = "exploration"
    quick_cases = 6400
    thorough_cases = 64000

    def cases(self, rng: random.Random, tier: str, idx: int) -> Iterable[dict]:
        if idx % 40 == 13:
            yield gen_queued_start_then_stop(rng)
            return
        yield gen_c18(rng)

    def oracle(self, run: Any, scn: dict) -> list[Violation]:
        return reconnect_oracle(Index(run.history), scn)

    def note(self, run: Any, scn: dict, notes: Any) -> None:
        ix = Index(run.history)
        notes["attempts"] += len(ix.conns)
        notes["sessions_established"] += len(ix.connected_seq)
        for ev in run.history:
            if ev[3] in ("rl_on_error", "rl_on_connect", "rl_on_disconnect"):
                notes[ev[3]] += 1
            elif ev[3] == "mdns_records" and ev[4]["n_listeners"] > 0:
                notes["records_delivered_to_listener"] += 1


CHECK = C18()
