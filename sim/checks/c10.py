"""C10 - keepalive: ping only when idle; silent peer dropped in (5.5K, 6.5K], live never."""
from __future__ import annotations

import random
from typing import Any, Iterable

from .. import wire
from ..runner import CheckBase, Violation
from .common import gen_knobs, gen_transport, pick
from .hist import Index

RATIO = 4.5


def model(T0: float, K: float, arrivals: list[float], horizon: float, tie: float, obs_pings: list[float] | None = None, obs_close: float | None = None, budget: int = 200000, stalls: list[tuple[float, float]] | None = None) -> list[tuple[list[float], float | None]]:
    """Outcomes (ping times, close time) the statement allows; an arrival tying with a timer may fall on either side.

    With observations given, the search is pruned against them and returns [matching outcome] or, if none
    matches, [the outcome of the arrival-first resolution] for the report.

    `stalls`: intervals (s, e] during which the event loop was blocked: a timer due inside one fires at its end (timers that
    were due earlier first), and is re-armed from the moment it fires; arrivals are given with the time they were processed.
    """
    steps = [0]
    found: list = []
    first_full: list = []
    stalls = sorted(stalls or [])

    def fire(x: float) -> float:
        # a timer that becomes due while a callback blocks the loop is collected at the start of the next turn (the end of the
        # blocked interval); if a blocking callback runs first in that very turn, the timer runs behind it
        for s0, e0 in stalls:
            if s0 < x <= e0:
                x = e0
                break
        for s0, e0 in stalls:
            if abs(s0 - x) <= 1e-12:
                return e0
        return x

    def consistent(pings: list[float]) -> bool:
        if obs_pings is None:
            return True
        n = len(pings)
        if n > len(obs_pings):
            return False
        return n == 0 or abs(pings[-1] - obs_pings[n - 1]) <= tie + 1e-9

    def finish(pings: list[float], close: float | None) -> None:
        if not first_full:
            first_full.append((list(pings), close))
        if obs_pings is None:
            found.append((list(pings), close))
            return
        if len(pings) != len(obs_pings):
            return
        if (close is None) != (obs_close is None):
            return
        if close is not None and abs(close - obs_close) > tie:
            return
        found.append((list(pings), close))

    def run(i: int, t_tick: float, pending: bool, deadline: float | None, pings: list[float]) -> None:
        while True:
            steps[0] += 1
            if steps[0] > budget or (obs_pings is not None and found):
                return
            nxt_arr = arrivals[i] if i < len(arrivals) else None
            cands = [("tick", fire(t_tick), t_tick)]
            if nxt_arr is not None:
                cands.append(("arr", nxt_arr, nxt_arr))
            if deadline is not None:
                cands.append(("dead", fire(deadline), deadline))
            tmin = min(c[1] for c in cands)
            if tmin > horizon:
                finish(pings, None)
                return
            now = [c for c in cands if abs(c[1] - tmin) <= tie]
            # timers that fire in the same instant run in the order they were due (a tie: the deadline first)
            timers = sorted((c for c in now if c[0] != "arr"), key=lambda c: (c[2], 0 if c[0] == "dead" else 1))
            kinds = [c[0] for c in now]
            if len(kinds) > 1 and "arr" in kinds:
                # the arrival may be processed before the timers of that instant (what one event-loop turn does), after
                # them, or between them (a timer that was already collected when a blocking callback ran, the next one not
                # yet): timers keep the order in which they were due
                for pos in range(len(timers) + 1):
                    p_b, d_b, t_b, pg_b = pending, deadline, t_tick, list(pings)
                    ended = False
                    for c in timers[:pos]:
                        if c[0] == "dead":
                            finish(pg_b, c[1])
                            ended = True
                            break
                        if p_b:
                            pg_b.append(c[1])
                            if not consistent(pg_b):
                                ended = True
                                break
                            if d_b is None:
                                d_b = c[1] + RATIO * K
                        p_b = True
                        t_b = c[1] + K
                    if not ended:
                        run(i + 1, t_b, False, None, pg_b)
                    if obs_pings is not None and found:
                        return
                return
            first = timers[0] if timers else None
            if first is None:
                i += 1
                pending = False
                deadline = None
            elif first[0] == "dead":
                finish(pings, first[1])
                return
            else:
                if pending:
                    pings = pings + [first[1]]
                    if not consistent(pings):
                        return
                    if deadline is None:
                        deadline = first[1] + RATIO * K
                pending = True
                t_tick = first[1] + K

    run(0, T0 + K, True, None, [])
    if obs_pings is not None:
        return found if found else first_full
    return found


def keepalive_oracle(ix: Index, scn: dict) -> list[Violation]:
    from ..engine import proto_table
    from ..env import lib

    out: list[Violation] = []
    K = float(scn["client"]["keepalive"])
    tol = 1e-6 * K + 1e-9
    c = ix.conns[0] if ix.conns else None
    if c is None or c not in ix.connected_seq:
        return out
    T0 = next(t for s, tu, t, old, new in ix.states[c] if new == "CONNECTED")
    table = proto_table()
    pb = lib().pb
    arrivals = []
    for seq, mtype, data, state, turn, t in ix.pp.get(c, []):
        if state != "CONNECTED":
            continue
        name = table.by_id.get(mtype)
        if name is None:
            continue
        try:
            getattr(pb, name)().ParseFromString(data)
        except Exception:
            continue
        arrivals.append(t)
    # observed pings
    pings_obs: list[float] = []
    c2d = scn["net"].get("c2d_latency", 0.001)
    if scn["device"].get("transport") == "noise":
        for ev in ix.h:
            if ev[3] == "dev_rx" and ev[4]["name"] == "PingRequest":
                pings_obs.append(ev[2] - c2d)
    else:
        for fd in ix.conn_fds(c):
            dec = wire.PlainDecoder()
            for seq, data, turn, t in ix.tr_writes.get(fd, []):
                try:
                    for mtype, payload in dec.feed(data):
                        if table.by_id.get(mtype) == "PingRequest":
                            pings_obs.append(t)
                except wire.WireError:
                    break
    fat = ix.fatal.get(c, [])
    close_obs = None
    close_cls = None
    if fat:
        close_obs = fat[0][2]
        close_cls = fat[0][1]["cls"]
    end_t = ix.run_end[2] if ix.run_end else 0.0
    stalls = bool(ix.stalls)
    last_avail = None
    for ev in ix.h:
        if ev[3] == "d2c_frame_avail" and not str(ev[4].get("name", "")).startswith("#") and (close_obs is None or ev[2] < close_obs - 1e-12 or (ev[2] <= close_obs and ev[1] < ix.seq_turn[fat[0][0]])):
            last_avail = ev[2]
    # safety half (also under stalls): never dropped within 4.5K of an available message
    if close_cls == "PingFailedAPIError" and last_avail is not None and close_obs - last_avail < RATIO * K - tol:
        out.append(Violation("dropped-while-alive", "", f"PingFailed at t={close_obs:.6f} although a message was available at t={last_avail:.6f}, only {close_obs - last_avail:.6f}s (< 4.5K={RATIO * K}) earlier"))
    if scn.get("stall_covers_deadline") and stalls and len(ix.stalls) == 1 and not arrivals:
        # a totally silent peer and one blocking callback that spans the pong deadline: the deadline timer is overdue when the
        # loop runs again, so the peer is declared dead right then - not an interval later
        sq, dd = ix.stalls[0]
        ev = next(e for e in ix.h if e[0] == sq)
        s_end = ev[2] + dd
        first_ping = min(pings_obs) if pings_obs else None
        if first_ping is not None and ev[2] < first_ping + RATIO * K < s_end:
            if close_cls != "PingFailedAPIError" or abs(close_obs - s_end) > tol:
                out.append(Violation("drop-time", "late-after-stall", f"silent peer, first ping at {first_ping:.6f}, pong deadline {first_ping + RATIO * K:.6f} inside the blocked interval ({ev[2]:.6f}, {s_end:.6f}]: want PingFailed at {s_end:.6f}, got {close_cls} at {close_obs}"))
    if stalls:
        return out  # (otherwise only the safety half is judged under stalls: the reference model has no blocked intervals)
    stall_windows = []
    for sq, dd in ix.stalls:
        ev = next((e for e in ix.h if e[0] == sq), None)
        if ev is not None:
            stall_windows.append((ev[2] - dd, ev[2]) if ev[4].get("at") == "end" else (ev[2], ev[2] + dd))
    horizon = end_t - 1e-6
    armed = next((ev for ev in ix.h if ev[3] == "write_raises_armed"), None)
    if armed is not None:
        # from here on every transport write raises synchronously: the first thing the library writes (a keepalive ping,
        # an answer to a device request) must end the session at once - a swallowed error would stop the keepalive for good
        ta = armed[2]
        raised = next((ev for ev in ix.h if ev[3] == "tr_write_raised"), None)
        if raised is not None:
            cs = ix.closed_seq.get(c)
            if cs is None or ix.seq_turn[cs] > raised[1] + 1:
                out.append(Violation("write-error-not-fatal", "", f"a transport write raised at t={raised[2]:.6f} but the session was not closed then (closed: {None if cs is None else ix.closed_t[c]})"))
        elif close_obs is None and end_t - ta > 2.5 * K + max([0.0] + [a - ta for a in arrivals if a > ta]):
            out.append(Violation("write-error-not-fatal", "no-write", f"writes fail since t={ta:.6f} and the peer has been silent for more than two intervals, yet the library never tried to write (keepalive stopped?)"))
        arrivals = [a for a in arrivals if a < ta - tol]
        pings_obs = [p for p in pings_obs if p < ta - tol]
        horizon = min(horizon, ta - 1e-6)
        if close_obs is not None and close_obs >= ta - tol:
            close_obs, close_cls = None, None
    if scn.get("abandoned_disconnect"):
        # the graceful disconnect ran to its end after all (its own 10 s limit, or the cancellation came too late): the
        # keepalive is judged up to the close the caller asked for
        done = next((op for op in ix.ops if op.actor == "quit" and op.do == "disconnect" and op.s1 is not None and not op.cancelled), None)
        if done is not None and c in ix.closed_t and ix.closed_t[c] <= done.t1 + tol and close_cls != "PingFailedAPIError":
            horizon = min(horizon, ix.closed_t[c] - 1e-6)
            arrivals = [a for a in arrivals if a < horizon]
            close_obs, close_cls = None, None
    close_for_model = close_obs if close_cls == "PingFailedAPIError" else None
    outcomes = model(T0, K, arrivals, horizon, tol, pings_obs, close_for_model, stalls=stall_windows)
    ok = False
    for pings_m, close_m in outcomes:
        if len(pings_m) != len(pings_obs) or any(abs(a - b) > tol + 1e-9 for a, b in zip(pings_m, pings_obs)):
            continue
        if (close_m is None) != (close_for_model is None):
            continue
        if close_m is not None and abs(close_m - close_obs) > tol:
            continue
        ok = True
        break
    if not ok:
        pm, cm = outcomes[0] if outcomes else ([], None)
        detail = f"K={K} T0={T0:.6f} arrivals={[round(a - T0, 6) for a in arrivals][-8:]} observed pings={[round(p - T0, 6) for p in pings_obs]} close={None if close_obs is None else round(close_obs - T0, 6)}({close_cls}); model pings={[round(p - T0, 6) for p in pm]} close={None if cm is None else round(cm - T0, 6)} (times relative to T0; model shown for arrival-before-timer tie resolution)"
        if len(pm) != len(pings_obs) or any(abs(a - b) > tol + 1e-9 for a, b in zip(pm, pings_obs)):
            extra = [p for p in pings_obs if all(abs(p - q) > tol for q in pm)]
            out.append(Violation("ping-schedule", "extra" if extra else "missing", "pings on the wire differ from the reference model: " + detail))
        else:
            if cm is None:
                out.append(Violation("drop-time", "dropped-live", "connection dropped although the model keeps it alive: " + detail))
            elif close_obs is None or close_cls != "PingFailedAPIError":
                out.append(Violation("drop-time", "not-dropped", "silent peer not dropped (or wrong cause): " + detail))
            else:
                out.append(Violation("drop-time", "early" if close_obs < cm else "late", "connection dropped at the wrong time: " + detail))
    if close_cls == "PingFailedAPIError":
        st = ix.on_stop.get(c, [])
        if (not st or st[0][1] is not False) and not (st and scn.get("abandoned_disconnect")):
            out.append(Violation("drop-flag", "", f"ping failure must be reported as an unexpected stop, on_stop calls: {st}"))
        if arrivals:
            gap = close_obs - arrivals[-1]
            if not stall_windows and not (5.5 * K - tol < gap <= 6.5 * K + tol) and not any(abs(a - (T0 + n * K)) < tol for a in arrivals[-1:] for n in range(0, 2000)):
                out.append(Violation("window", "", f"peer fell silent at {arrivals[-1]:.6f}, dropped {gap:.6f}s later; want (5.5K, 6.5K] = ({5.5 * K}, {6.5 * K}]"))
    return out


def any_msg(rng: random.Random) -> list:
    """A device message of any type: half of the time one of the everyday ones, otherwise any defined type (empty payload)."""
    if rng.random() < 0.5:
        return pick(rng, MSGS)
    from .c12 import _table

    t = _table()
    names = [t.by_id[i] for i in sorted(t.by_id) if t.by_id[i] != "DisconnectRequest"]
    return [pick(rng, names), {}]


MSGS = [["SensorStateResponse", {"key": 2, "state": 1.0}], ["SwitchStateResponse", {"key": 1, "state": True}], ["PingResponse", {}], ["SubscribeLogsResponse", {"message": "6c6f67"}], ["PingRequest", {}], ["GetTimeRequest", {}]]


def gen_c10(rng: random.Random, stalls: bool = False) -> dict:
    K = pick(rng, [0.5, 1.0, 1.5, 2.5, 7.0, 20.0, 60.0, 0.7, 3.3])
    client: dict = {"addresses": ["10.0.0.5"], "keepalive": K}
    device: dict = {}
    gen_transport(rng, client, device, noise_p=0.2)
    if rng.random() < 0.5:
        device["replies"] = {"PingRequest": ["silent"]}
    elif rng.random() < 0.3:
        device["replies"] = {"PingRequest": [{"msgs": [["PingResponse", {}]], "delay": K * pick(rng, [0.5, 2.0, 4.4, 4.6])}]}
    stall_family = False
    g = K / 20.0
    N = rng.randint(10, 40)
    times: list[float] = []
    t = 0.0
    while t < N * K:
        r = rng.random()
        if r < 0.25:
            t += g * rng.randint(1, 10)
        elif r < 0.45:
            t += K * pick(rng, [0.95, 1.0, 1.05, 1.5, 2.0])
        elif r < 0.6:
            t += K * pick(rng, [4.4, 4.45, 4.5, 4.55, 5.4, 5.5, 5.6])
        elif r < 0.8:
            # right next to a tick
            n = int(t / K) + rng.randint(1, 3)
            t = n * K + pick(rng, [-g, g, -1e-6 * K * 10, 1e-6 * K * 10, 0.0])
        else:
            t += g * rng.randint(10, 60)
        if t > 0:
            times.append(round(t / g) * g if rng.random() < 0.7 else t)
    times = sorted(set(x for x in times if 0 < x < N * K))
    events = []
    for x in times:
        events.append({"at": {"on": "state", "match": {"new": "CONNECTED"}, "delay": x}, "do": "dev", "act": {"msgs": [any_msg(rng)], "latency": 0.0}})
    end = (times[-1] if times else 0.0) + 14 * K + 5.0
    if stalls and rng.random() < 0.25:
        # one blocking callback that spans the pong deadline of a totally silent peer
        device["replies"] = {"PingRequest": ["silent"]}
        events[:] = [e for e in events if e.get("do") != "dev"]
        s0 = K * (1.0 + RATIO) - K * pick(rng, [0.1, 0.5, 2.0])
        events.append({"at": {"on": "state", "match": {"new": "CONNECTED"}, "delay": s0}, "do": "fault", "kind": "stall", "d": K * pick(rng, [0.3, 0.7, 1.5, 3.0]) + (K * (1.0 + RATIO) - s0), "phase": "pre"})
        end = 14 * K + 5.0
        stall_family = True
    elif stalls:
        for _ in range(rng.randint(1, 4)):
            events.append({"at": {"on": "state", "match": {"new": "CONNECTED"}, "delay": rng.random() * N * K}, "do": "fault", "kind": "stall", "d": K * pick(rng, [0.5, 2.0, 5.0, 9.0]), "phase": "pre"})
    if not stalls and rng.random() < 0.1:
        events.append({"at": {"on": "state", "match": {"new": "CONNECTED"}, "delay": K * (1.0 + rng.random() * (N - 1))}, "do": "fault", "kind": "write_raises", "always": True, "exc": pick(rng, ["OSError", "RuntimeError"])})
    # TCP segmentation: in a third of the runs device writes are cut into small chunks read in successive turns (same
    # instant), so reads end inside frames; several messages per device write make chunks of [frames][head of next]
    cuts: dict = {"mode": "coalesce"}
    if not stalls and rng.random() < 0.35:  # (with stalls a frame must be complete in the read that follows the stall)
        cuts = {"mode": "sizes", "sizes": [pick(rng, [1, 2, 3, 4, 5, 7]) for _ in range(rng.randint(1, 3))]}
        for ev in events:
            if ev.get("do") == "dev" and rng.random() < 0.5:
                ev["act"]["msgs"] = ev["act"]["msgs"] + [any_msg(rng) for _ in range(rng.randint(1, 3))]
    actors = [{"id": "a0", "at": {"t": 0.0}, "steps": [{"do": "connect", "login": rng.random() < 0.5}]}]
    if device.get("transport") != "noise" and not stalls and rng.random() < 0.08:
        # a dead device that no longer drains its socket while the application keeps sending: the transport goes above
        # its high-water mark and pauses the protocol - keepalive pings and the pong deadline go on regardless
        t_dead = K * (1.0 + rng.random() * 3)
        events[:] = [e for e in events if not (e.get("do") == "dev" and e["at"].get("delay", 0) > t_dead)]
        if rng.random() < 0.5:
            events.append({"at": {"on": "state", "match": {"new": "CONNECTED"}, "delay": t_dead}, "do": "fault", "kind": "tx_block", "d": 3000.0})
        else:
            # ... or its TCP stack still drains the socket now and then while the API task behind it hangs (no message, no
            # pong): the write buffer fills and empties - a drained buffer is no sign of life
            device.setdefault("replies", {})["PingRequest"] = ["silent"]
            d_blk = K * pick(rng, [0.6, 1.2, 2.0])
            tb = t_dead
            while tb < t_dead + 16 * K:
                events.append({"at": {"on": "state", "match": {"new": "CONNECTED"}, "delay": tb}, "do": "fault", "kind": "tx_block", "d": d_blk})
                tb += d_blk + K * pick(rng, [0.05, 0.3])
        big = [{"do": "send", "msgs": [["CameraImageRequest", {"single": True}], ["VoiceAssistantAudio", {"data": {"gen": [40000, 7]}}]]}, {"do": "sleep", "d": K * 0.4}]
        actors.append({"id": "flood", "at": {"on": "state", "match": {"new": "CONNECTED"}, "delay": t_dead + 0.01}, "steps": big * 12})
        end = max(end, t_dead + 14 * K + 5.0)
    if rng.random() < 0.15:
        # the application issues requests the device never answers; they time out at all sorts of offsets from the ticks -
        # a request (or its timeout) is no sign of life of the peer and no reason to doubt one that has just been heard
        device.setdefault("replies", {})["SubscribeLogsRequest"] = ["silent"]
        rsteps: list = []
        for _ in range(rng.randint(1, 6)):
            rsteps += [{"do": "sleep", "d": K * pick(rng, [0.1, 0.4, 0.9, 1.3, 2.6])}, {"do": "request", "msgs": [["SubscribeLogsRequest", {}]], "types": ["SubscribeLogsResponse"], "stop": {"p": "never"}, "timeout": K * pick(rng, [0.05, 0.3, 0.55, 0.8, 1.2])}]
        actors.append({"id": "req", "at": {"on": "state", "match": {"new": "CONNECTED"}, "delay": 0.0}, "steps": rsteps})
    if rng.random() < 0.25:
        # the application keeps writing fire-and-forget commands: outgoing traffic is no sign of life of the peer
        x = K * pick(rng, [0.3, 0.5, 0.9, 1.7])
        wsteps: list = []
        for _ in range(min(200, int(end / x) + 1)):
            wsteps += [{"do": "switch_command", "key": 1, "state": bool(rng.getrandbits(1))}, {"do": "sleep", "d": x}]
        actors.append({"id": "app", "at": {"on": "state", "match": {"new": "CONNECTED"}, "delay": pick(rng, [0.0, 0.1 * K])}, "steps": wsteps})
    if not stalls and rng.random() < 0.06 and not any(e.get("kind") in ("write_raises", "tx_block") for e in events):
        # the peer dies in the middle of a frame (power loss while transmitting): the bytes of the unfinished frame are no
        # message - the silence that follows is detected on schedule
        t_cut = K * (0.5 + rng.random() * 4)
        device.setdefault("replies", {})["PingRequest"] = ["silent"]  # (a pong behind the fragment would be garbage)
        events[:] = [e for e in events if not (e.get("do") == "dev" and e["at"].get("delay", 0) >= t_cut)]
        part = pick(rng, ["01", "010020", "010020aabbccdd"]) if device.get("transport") == "noise" else pick(rng, ["00", "000a", "000a1a", "00301a0102030405", "008001"])
        events.append({"at": {"on": "state", "match": {"new": "CONNECTED"}, "delay": t_cut}, "do": "dev", "act": {"raw_hex": part, "latency": 0.0}})
        end = t_cut + 14 * K + 5.0
    extra: dict = {}
    if stall_family:
        extra["stall_covers_deadline"] = True
    if not stalls and rng.random() < 0.08:
        # a caller gives up on a graceful disconnect the peer never answers (wait_for / cancel): the session it could not
        # end is still established and its keepalive goes on as if nothing had been asked
        device.setdefault("replies", {})["DisconnectRequest"] = ["silent"]
        x = K * (0.2 + rng.random() * 6)
        actors.append({"id": "quit", "at": {"on": "state", "match": {"new": "CONNECTED"}, "delay": x}, "steps": [{"do": "disconnect"}]})
        events.append({"at": {"on": "op_start", "match": {"actor": "quit", "do": "disconnect"}, "delay": pick(rng, [0.0, 0.01, min(0.3 * K, 6.0), 3.0])}, "do": "poke", "what": "cancel", "target": "quit", "phase": pick(rng, ["pre", "post"])})
        extra["abandoned_disconnect"] = True
    return {
        **extra,
        "family": "keepalive",
        "knobs": gen_knobs(rng),
        "client": client,
        "device": device,
        "net": {"cuts": cuts, "c2d_latency": 0.001, "d2c_latency": [0.0]},
        "actors": actors,
        "events": events,
        "end": end,
        "max_time": 1e6,
    }


class C10(CheckBase):
    pid = "C10"
    level = "exploration"
    quick_cases = 8000
    thorough_cases = 80000

    def cases(self, rng: random.Random, tier: str, idx: int) -> Iterable[dict]:
        yield gen_c10(rng, stalls=(idx % 5 == 4))

    def oracle(self, run: Any, scn: dict) -> list[Violation]:
        return keepalive_oracle(Index(run.history), scn)

    def note(self, run: Any, scn: dict, notes: Any) -> None:
        ix = Index(run.history)
        c = ix.conns[0] if ix.conns else None
        f = ix.fatal.get(c, [])
        if f and f[0][1]["cls"] == "PingFailedAPIError":
            notes["dropped_by_ping_failure"] += 1
        elif f:
            notes["closed_other"] += 1
        else:
            notes["alive_at_end"] += 1
        if ix.stalls:
            notes["runs_with_stalls"] += 1


CHECK = C10()
