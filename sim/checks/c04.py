"""C04 - encrypted transport fails closed with a specific error; no forged delivery."""
from __future__ import annotations

import base64
import copy
import random
from typing import Any, Iterable

from ..runner import CheckBase, Violation
from .common import gen_cuts, gen_knobs, pick
from .hist import Index

KEY = "InvalidEncryptionKeyAPIError"
HS = "HandshakeAPIError"
PROTO = "ProtocolAPIError"
NAME = "BadNameAPIError"
REQ = "RequiresEncryptionAPIError"
ANY_SPECIFIC = {KEY, HS, PROTO, NAME}


def expectation(t: dict, n_data: int, exp_name: str | None, hello_name_len: int) -> tuple[int | None, set, bool]:
    """(limit on delivered packets or None = all, allowed first-error classes, detection required)."""
    j, kind = t["frame"], t["kind"]
    d = j - 2
    pos = t.get("pos", 0)
    if j >= 2:
        last = d == n_data - 1
        if kind == "flip":
            if pos == 0:
                return d, {PROTO}, True
            if pos in (1, 2):
                return d, {KEY, PROTO}, False
            return d, {KEY}, True
        if kind == "truncate":
            # the cut-off tail may by coincidence equal the following bytes (1/256 for one byte):
            # the frame then is byte-identical to the genuine one and is legitimately delivered
            return d + 1, {KEY, PROTO}, False
        if kind == "shorten":
            return d, {KEY}, True
        if kind == "drop":
            return d, {KEY}, not last
        if kind == "dup":
            return d + 1, {KEY}, True
        if kind == "swap":
            return d, {KEY}, not last
    if j == 1:
        if kind == "flip":
            if pos == 0:
                return 0, {PROTO}, True
            if pos in (1, 2):
                return 0, ANY_SPECIFIC, False
            if pos == 3:
                return 0, {HS}, True
            return 0, {KEY}, True
        if kind == "dup":
            return 0, {KEY}, True
        if kind == "shorten":
            return 0, ANY_SPECIFIC, True
        return 0, ANY_SPECIFIC, False
    # hello frame
    if kind == "flip":
        if pos == 0:
            return 0, {PROTO}, True
        if pos in (1, 2):
            return 0, ANY_SPECIFIC, False
        if pos == 3:
            return 0, {HS}, True
        if exp_name is not None and pos < 4 + hello_name_len + 1:
            return 0, {NAME, HS}, True
        return None, {NAME, HS}, False
    if kind == "shorten":
        # k = 0: empty hello (handshake error); otherwise a hello cut inside / before the name: old-firmware form without a
        # name is legal when no name is expected
        return (0, {HS}, True) if t.get("len", 0) == 0 else (None, {NAME, HS}, False)
    return 0, ANY_SPECIFIC, False


def first_error(ix: Index, conn: str) -> dict | None:
    f = ix.fatal.get(conn, [])
    return f[0][1] if f else None


def cls_in(err: dict, allowed: set) -> bool:
    return any(c in allowed for c in err.get("mro", [err.get("cls")]))


def tamper_oracle(ix: Index, scn: dict) -> list[Violation]:
    out: list[Violation] = []
    conn = ix.conns[0] if ix.conns else None
    if conn is None:
        return out
    cid = next(iter(ix.dev_tx), None)
    txs = ix.dev_tx.get(cid, []) if cid else []
    genuine = sorted({d["out_idx"]: d for d in txs if d.get("kind") == "msg" and not d.get("replay")}.values(), key=lambda d: d["out_idx"])
    P = [(d["type"], d["payload"]) for d in genuine]
    got = [(mtype, data) for seq, mtype, data, state, turn, t in ix.pp.get(conn, [])]
    # (1) prefix, always
    if got != P[: len(got)]:
        k = next((i for i, (a, b) in enumerate(zip(got, P)) if a != b), len(P))
        what = "forged-or-altered" if k < len(got) and (k >= len(P) or got[k] not in P) else "replayed-or-reordered"
        out.append(Violation("not-a-prefix", what, f"delivered packet #{k} is not what the device sent at that position (delivered {len(got)}, sent {len(P)})"))
        return out
    t = scn.get("tamper_info")
    err = first_error(ix, conn)
    ready = [ev[4] for ev in ix.h if ev[3] == "fh_ready"]
    if t is not None:
        exp_name = scn.get("expected_name")
        limit, allowed, required = expectation(t, scn.get("n_data", len(P)), exp_name, scn.get("hello_name_len", 0))
        if limit is not None and len(got) > limit:
            out.append(Violation("delivered-past-deviation", t["kind"], f"{t['kind']} of frame {t['frame']} (pos {t.get('pos')}): {len(got)} packet(s) delivered, at most {limit} precede the deviation"))
        if err is None:
            if required:
                out.append(Violation("undetected", f"{t['kind']}:f{min(t['frame'], 2)}", f"{t['kind']} of frame {t['frame']} (pos {t.get('pos')}) was not detected although a complete frame followed"))
        else:
            if not cls_in(err, allowed):
                out.append(Violation("error-class", f"f{min(t['frame'], 2)}:{t['kind']}:{err['cls']}", f"{t['kind']} of frame {t['frame']} (pos {t.get('pos')}): first fatal error {err['cls']}: {err['text'][:80]!r}; allowed {sorted(allowed)}"))
            if not any(ev[3] in ("tr_close", "tr_abort", "sock_close") for ev in ix.h):
                out.append(Violation("not-closed", "", "a fatal framing error did not close the transport"))
            if ready and not ready[0]["ok"] and ready[0]["err"] and not cls_in(ready[0]["err"], allowed | {"APIConnectionError"}) and t["frame"] < 2:
                out.append(Violation("ready-error-class", ready[0]["err"]["cls"], f"pending readiness wait received {ready[0]['err']['cls']}, allowed {sorted(allowed)}"))
    else:
        want = scn.get("expect_error")
        if want is not None:
            ops = [op for op in ix.ops if op.do in ("connect", "fh.attach")]
            src = err
            if src is None and ops and ops[0].err:
                src = ops[0].err
            if src is None:
                out.append(Violation("undetected", scn.get("deviation", "?"), f"deviation {scn.get('deviation')} was not detected"))
            else:
                if want != "any" and not cls_in(src, {want}):
                    out.append(Violation("error-class", f"{scn.get('deviation')}:{src['cls']}", f"deviation {scn.get('deviation')}: got {src['cls']}: {src['text'][:80]!r}, want {want}"))
                if want == NAME and src.get("received_name") != scn.get("announced_name"):
                    out.append(Violation("bad-name-payload", "", f"BadNameAPIError carries {src.get('received_name')!r}, the device announced {scn.get('announced_name')!r}"))
            for op in ops:
                if op.ok:
                    out.append(Violation("accepted-deviation", scn.get("deviation", "?"), f"{op.do} succeeded despite deviation {scn.get('deviation')}"))
                elif want != "any" and op.err and op.do == "connect" and not cls_in(op.err, {want}):
                    out.append(Violation("error-class", f"{scn.get('deviation')}:op:{op.err['cls']}", f"deviation {scn.get('deviation')}: connect raised {op.err['cls']}: {op.err['text'][:80]!r}, want {want}"))
            if scn.get("nothing_written") and any(ix.tr_writes.values()):
                out.append(Violation("written-before-reject", "", "bytes were written although the configured key is invalid"))
            if scn.get("nothing_written") and ix.audit is not None and (ix.audit.get("open_socks") or any(cd.get("state") not in ("CLOSED", "INITIALIZED") for cd in ix.audit.get("conns", []))):
                out.append(Violation("not-closed", "bad_psk", f"after the key was refused the attempt is not over: open sockets {ix.audit.get('open_socks')}, connection states {[cd.get('state') for cd in ix.audit.get('conns', [])]}"))
            if got:
                out.append(Violation("delivered-past-deviation", scn.get("deviation", "?"), "packets delivered despite a handshake-phase deviation"))
    return out


def base_helper(rng: random.Random) -> dict:
    psk = base64.b64encode(bytes(rng.getrandbits(8) for _ in range(32))).decode()
    name = pick(rng, ["simdev", "n", "living-room"])
    exp = pick(rng, [None, name])
    msgs = []
    for _ in range(rng.randint(3, 10)):
        msgs.append({"type": pick(rng, [1, 26, 127, 300]), "payload_gen": [pick(rng, [0, 1, 3, 10, 40]), rng.getrandbits(20)]})
    k = rng.randint(0, len(msgs))
    events = []
    if msgs[k:]:
        events.append({"at": {"t": 0.5}, "do": "dev", "act": {"msgs": msgs[k:], "latency": 0.0}})
    nameless = rng.random() < 0.2  # the hello of firmware before 2022.2: the protocol selector only, no name
    return {
        "family": "framing",
        "knobs": gen_knobs(rng),
        "expected_name": exp,
        "hello_name_len": -1 if nameless else len(name),
        "n_data": len(msgs),
        "device": {"transport": "noise", "psk": psk, "eph_seed": "%x" % rng.getrandbits(32), "noise_name": name, **({"noise_hello_name": False} if nameless else {}), "on_handshake": [{"msgs": msgs[:k]}] if k else []},
        "net": {"cuts": gen_cuts(rng), "d2c_latency": [0.0], "c2d_latency": 0.0},
        "actors": [{"id": "a0", "at": {"t": 0.0}, "steps": [{"do": "fh.attach", "kind": "noise", "psk": psk, "expected_name": exp, "wait_ready": False}]}],
        "events": events,
        "end": 30.0,
    }


def with_tamper(base: dict, t: dict) -> dict:
    s = copy.deepcopy(base)
    s["device"]["tamper"] = [t]
    s["tamper_info"] = t
    return s


def full_client_deviation(rng: random.Random) -> dict:
    psk = base64.b64encode(bytes(rng.getrandbits(8) for _ in range(32))).decode()
    other = base64.b64encode(bytes(rng.getrandbits(8) for _ in range(32))).decode()
    client: dict = {"addresses": ["10.0.0.5"], "keepalive": 20.0, "noise_psk": psk}
    device: dict = {"transport": "noise", "psk": psk, "eph_seed": "%x" % rng.getrandbits(32)}
    dev = pick(rng, ["wrong_key", "reject_mac", "reject_other", "selector", "empty_hello", "low_order_key", "name", "noise_to_plain_rst", "noise_to_plain_reply", "noise_to_plain_fin", "plain_to_noise", "bad_psk"])
    scn: dict = {"deviation": dev}
    if dev == "wrong_key":
        device["psk"] = other
        scn["expect_error"] = KEY
    elif dev == "reject_mac":
        device["noise_reject"] = "Handshake MAC failure"
        scn["expect_error"] = KEY
    elif dev == "reject_other":
        device["noise_reject"] = pick(rng, ["Bad handshake packet len", "Handshake error", "x"])
        scn["expect_error"] = HS
    elif dev == "selector":
        device["noise_selector"] = pick(rng, [0, 2, 255])
        scn["expect_error"] = HS
    elif dev == "empty_hello":
        device["noise_empty_hello"] = True
        scn["expect_error"] = HS
    elif dev == "low_order_key":
        # the responder's ephemeral key is a low-order curve25519 point (all-zero shared secret): the X25519 backend refuses
        # it with its own exception type, which is a handshake failure like any other
        device["noise_hs_epub"] = pick(rng, ["00" * 32, "01" + "00" * 31, "e0eb7a7c3b41b8ae1656e3faf19fc46ada098deb9c32b1fd866205165f49b800", "5f9c95bca3508c24b1d0b1559c83ef5b04445cc4581c8e86d8224eddd09f1157", "ecffffffffffffffffffffffffffffffffffffffffffffffffffffffffffff7f"])
        scn["expect_error"] = HS
    elif dev == "name":
        client["expected_name"] = "simdev"
        device["noise_name"] = pick(rng, ["other", "simdeV", "simde", ""])
        scn["expect_error"] = NAME
        scn["announced_name"] = device["noise_name"]
    elif dev.startswith("noise_to_plain"):
        device = {"on_wire_error": {"noise_to_plain_rst": "rst", "noise_to_plain_reply": "reply_plain", "noise_to_plain_fin": "close"}[dev]}
        scn["expect_error"] = {"noise_to_plain_rst": HS, "noise_to_plain_reply": PROTO, "noise_to_plain_fin": "any"}[dev]
    elif dev == "plain_to_noise":
        client.pop("noise_psk")
        device["on_wire_error"] = "reply_noise_error"
        scn["expect_error"] = REQ
    elif dev == "bad_psk":
        raw = bytes(rng.getrandbits(8) for _ in range(32))
        good = base64.b64encode(raw).decode()
        k = rng.randrange(len(good))
        uni = pick(rng, ["\u00e9", "\uff1d", "\u2013", "\u00a0", "\u201c", "\u2215"])
        client["noise_psk"] = pick(
            rng,
            [
                base64.b64encode(raw[:31]).decode(),
                base64.b64encode(raw + b"x").decode(),
                "not base64 !!",
                good[:-2],
                "QUJD",
                base64.b64encode(raw[:16]).decode(),
                "*" * 44,
                # non-ASCII characters can never be base64 (typographic quote, full-width '=', en dash, nbsp ...)
                good[:k] + uni + good[k + 1 :],
                good + uni,
                uni + good,
                base64.b64encode(raw + raw).decode(),
                base64.b64encode(b"").decode() + "=",
            ],
        )
        scn["expect_error"] = KEY
        scn["nothing_written"] = True
    events: list = []
    if dev in ("wrong_key", "reject_mac", "reject_other", "selector", "name", "empty_hello", "low_order_key") and rng.random() < 0.3:
        # the deviating answer becomes readable just before the 30 s handshake deadline while the event loop is stalled
        # past it: the reader runs before the overdue timer, the specific error still wins
        device["noise_hello_latency" if dev in ("selector", "name", "empty_hello") else "noise_hs_latency"] = pick(rng, [29.9, 29.99])
        events.append({"at": {"t": pick(rng, [29.8, 29.95])}, "do": "fault", "kind": "stall", "d": pick(rng, [0.3, 1.0, 5.0]), "phase": "pre"})
    scn.update(
        {
            "family": "session",
            "knobs": gen_knobs(rng),
            "client": client,
            "device": device,
            "net": {"cuts": gen_cuts(rng), "d2c_latency": [pick(rng, [0.0, 0.001])], "c2d_latency": pick(rng, [0.0, 0.001])},
            "actors": [{"id": "a0", "at": {"t": 0.0}, "steps": [{"do": "connect", "login": rng.random() < 0.5}]}],
            "events": events,
            "end": 200.0,
        }
    )
    if events:
        # the whole answer has to be readable in the turn in which the timer is overdue: one chunk
        scn["net"]["cuts"] = {"mode": "coalesce"}
    return scn


class C04(CheckBase):
    pid = "C04"
    level = "fault_enumeration"
    quick_cases = 128
    thorough_cases = 1280
    stub = CheckBase.stub + ["for the helper-level runs: the connection object (recording stand-in)"]

    def cases(self, rng: random.Random, tier: str, idx: int) -> Iterable[dict]:
        from ..engine import run_scenario

        if idx % 4 == 3:
            for _ in range(60 if tier == "quick" else 150):
                yield full_client_deviation(rng)
            return
        base = base_helper(rng)
        yield base
        r0 = run_scenario(base)
        ix = Index(r0.history)
        cid = next(iter(ix.dev_tx), None)
        lens = {d["out_idx"]: d["wire_len"] for d in ix.dev_tx.get(cid, [])}
        stride = 1 if tier == "thorough" else 3
        off = rng.randrange(stride)
        for j, L in sorted(lens.items()):
            for pos in range(L):
                if pos < 6 or (pos + off) % stride == 0 or pos >= L - 2:
                    yield with_tamper(base, {"frame": j, "kind": "flip", "pos": pos, "mask": 1 << rng.randrange(8)})
                    if tier == "thorough" or rng.random() < 0.3:
                        yield with_tamper(base, {"frame": j, "kind": "flip", "pos": pos, "mask": 0xFF})
            for n in range(0, L):
                if n < 5 or (n + off) % stride == 0:
                    yield with_tamper(base, {"frame": j, "kind": "truncate", "len": n})
            for kind in ("dup", "swap", "drop"):
                yield with_tamper(base, {"frame": j, "kind": kind})
            for n in sorted({0, 1, 2, 15, 16, 17, max(0, L - 4)} | ({rng.randrange(max(1, L - 3))} if L > 3 else set())):
                if n < L - 3:
                    yield with_tamper(base, {"frame": j, "kind": "shorten", "len": n})

    def oracle(self, run: Any, scn: dict) -> list[Violation]:
        return tamper_oracle(Index(run.history), scn)

    rule_text = (
        "cases come from sha256(seed, property, tier, index): a case is one valid Noise session plus the systematic sweep of single-frame "
        "corruptions over it (or a batch of handshake-phase deviations through the full client); distinct = distinct (frame class, tamper kind, "
        "byte position / truncation length, mask class | deviation kind, first error class, packets delivered); every such run is non-trivial "
        "(exactly one deviation is injected), the untampered baseline runs are trivial and not counted"
    )

    def distinct_key(self, run: Any, scn: dict) -> int | None:
        import hashlib

        t = scn.get("tamper_info")
        if t is None and "deviation" not in scn:
            return None
        ix_f = [ev[4]["err"]["cls"] for ev in run.history if ev[3] == "fatal"][:1]
        npp = sum(1 for ev in run.history if ev[3] == "pp")
        key = (min(t["frame"], 2), t["kind"], t.get("pos"), t.get("len"), t.get("mask") == 0xFF) if t else (scn["deviation"], scn["client"].get("noise_psk", "")[:6], scn["device"].get("noise_name"))
        return int.from_bytes(hashlib.blake2b(repr((key, ix_f, npp)).encode(), digest_size=8).digest(), "big")

    def extra_evidence(self, stats: dict) -> dict:
        return {"sweep": "per generated session: every frame x every byte position (thorough: all, two masks; quick: header/tail bytes plus every 3rd) bit flips, every truncation length (same sampling), dup/swap/drop of every frame; plus handshake-phase deviations, framing mismatch pairs and invalid key strings through the full client"}


CHECK = C04()
