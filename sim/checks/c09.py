"""C09 - operations end in bounded time with a classified error; first cause wins."""
from __future__ import annotations

import copy
import random
from typing import Any, Iterable

from ..runner import CheckBase, Violation
from .c08 import gen_c08_base
from .common import make_rejecting, CAUSES, gen_knobs, gen_net, gen_transport, pick, with_cause
from .hist import HARNESS_STEPS, Index

EPS = 1e-6
OWN_FAILURES = {"TimeoutAPIError", "InvalidAuthAPIError", "BadNameAPIError", "ResolveAPIError", "ConnectionNotEstablishedAPIError"}


def n_addrinfos(scn: dict) -> int:
    """Upper bound on the number of TCP connect rounds of one attempt: every round tries all remaining addresses and, when it
    times out, drops the first address of *each family* - so it is the larger of the two per-family address counts."""
    n4 = n6 = 0
    net = scn.get("net", {})
    for a in scn.get("client", {}).get("addresses", []):
        if ":" in a:
            n6 += 1
            continue
        if a[0].isdigit() and a.count(".") == 3:
            n4 += 1
            continue
        ent = net.get("resolver", {}).get(a, net.get("resolver", {}).get("*", {}))
        res = ent.get("result")
        if isinstance(res, list):
            n6 += sum(1 for r in res if r[0] == 6)
            n4 += sum(1 for r in res if r[0] != 6)
        m = net.get("mdns", {}).get(a.partition(".")[0], {})
        n4 += len(m.get("v4", []))
        n6 += len(m.get("v6", []))
    return max(1, n4, n6)


def op_bound(op: Any, scn: dict) -> float | None:
    n = n_addrinfos(scn)
    start = 30.0 + 60.0 * n
    res = scn.get("net", {}).get("resolver", {})
    addrs = scn.get("client", {}).get("addresses", [])
    fq = lambda a: "." in a and ":" not in a and not a.rstrip(".").endswith(".local") and not a[0].isdigit()  # (names only the OS resolver is asked for)
    if addrs and all(fq(a) and a in res and res[a].get("result") == "hang" for a in addrs) and op.do in ("start", "conn.start", "connect"):
        return 30.0  # nothing ever resolves: the attempt ends with the resolve step's own limit
    if op.do in ("start", "conn.start"):
        return start
    if op.do in ("finish", "conn.finish"):
        return 60.0
    if op.do == "connect":
        return start + 60.0
    if op.do in ("request", "conn.request"):
        return float(op.args.get("timeout", 10.0))
    if op.do == "device_info":
        return 10.0
    if op.do == "list_entities":
        return 60.0
    if op.do in ("disconnect", "conn.disconnect"):
        return 15.0
    if op.do == "ble.connect":
        # its own timeout, then the disconnect it issues for the address with that call's timeout
        return float(op.args.get("timeout", 30.0)) + float(op.args.get("disconnect_timeout", 20.0))
    if op.do in HARNESS_STEPS:
        return None
    return 0.0  # synchronous API calls


def bounded_oracle(ix: Index, scn: dict) -> list[Violation]:
    out: list[Violation] = []
    stall = sum(d for _, d in ix.stalls)
    end_t = ix.run_end[2] if ix.run_end else 0.0
    reason = ix.run_end[4]["reason"] if ix.run_end else "?"
    for op in ix.ops:
        b = op_bound(op, scn)
        if b is None:
            continue
        if op.s1 is None:
            # still pending when the run ended
            if reason == "quiescent":
                out.append(Violation("hang", op.do, f"{op.actor}[{op.i}] {op.do} still pending with nothing left to happen (deadlock) at t={end_t:.3f}"))
            elif end_t - op.t0 > b + stall + EPS:
                out.append(Violation("hang", op.do, f"{op.actor}[{op.i}] {op.do} pending for {end_t - op.t0:.3f}s > bound {b}s"))
            continue
        dur = op.t1 - op.t0
        if dur > b + stall + EPS * max(1.0, b):
            out.append(Violation("bound", op.do, f"{op.actor}[{op.i}] {op.do} took {dur:.6f}s > bound {b}s"))
    return out


def classified_oracle(ix: Index, scn: dict | None = None) -> list[Violation]:
    out: list[Violation] = []
    names = None
    if scn is not None and "device" in scn:
        dv = scn["device"]
        names = {dv.get("noise_name", dv.get("name", "simdev")), dv.get("hello", {}).get("name", dv.get("name", "simdev"))}
    for op in ix.ops:
        if op.s1 is None or op.ok or op.do in HARNESS_STEPS or op.do.startswith("conn.new"):
            continue
        err = op.err or {}
        if op.cancelled:
            if not op.requested:
                out.append(Violation("unrequested-cancel", op.do, f"{op.actor}[{op.i}] {op.do} raised CancelledError the caller did not request"))
            continue
        if op.do == "finish" and err.get("cls") == "RuntimeError" and op.conn is not None and any(seq < op.s0 for seq, _f, _s in ix.disc_calls.get(op.conn, [])):
            # relaxation: finish after the caller itself disconnected between the two phases is API misuse
            continue
        if not err.get("api"):
            out.append(Violation("unclassified", f"{op.do}:{err.get('cls')}", f"{op.actor}[{op.i}] {op.do} raised {err.get('cls')}: {err.get('text')}"))
        elif err.get("cls") == "BadNameAPIError" and names is not None and err.get("received_name") not in names:
            # whatever else happened in that turn (a cancellation, a close): a bad-name error names the device that answered
            out.append(Violation("bad-name-payload", repr(err.get("received_name")), f"{op.actor}[{op.i}] {op.do} raised BadNameAPIError carrying {err.get('received_name')!r}, the device announced {sorted(names)}"))
    return out


def _sig_ok(sig: str, detail: Any, err: dict, ix: Index, fd: int) -> tuple[bool, str]:
    mro = err.get("mro", [])
    chain = err.get("chain", [])
    if sig == "eof":
        return "SocketClosedAPIError" in mro, "SocketClosedAPIError (EOF)"
    if sig.startswith("garbage:"):
        name = sig.split(":", 1)[1]
        if name == "#requires_encryption":
            return "RequiresEncryptionAPIError" in mro, "RequiresEncryptionAPIError"
        return ("ProtocolAPIError" in mro or "HandshakeAPIError" in mro), "ProtocolAPIError/HandshakeAPIError"
    return True, ""


def first_cause_oracle(ix: Index) -> list[Violation]:
    """Every waiter in flight when the connection died carries the first delivered cause.

    Causes are ordered by the moment the library is told: stream order for bytes and EOF,
    one turn after the failing recv/send for socket errors (connection_lost is queued).
    """
    out: list[Violation] = []
    for c in ix.conns:
        fds = ix.conn_fds(c)
        causes = []
        for fd in fds:
            for j, (key, sig, det) in enumerate(ix.causes.get(fd, [])):
                causes.append((key, j, sig, det, fd))
        # a synchronously raising write is a cause only where the library was told (send_messages reports it as fatal);
        # raised inside a transport callback such as connection_made it goes to the loop's exception handler instead
        told = {x.get("fault") for _s, e, _t in ix.fatal.get(c, []) for x in e.get("chain", []) if x.get("fault")}
        causes = [x for x in causes if x[2] != "write_raise" or x[3] in told]
        if not causes:
            continue
        causes.sort(key=lambda x: (x[0], x[1]))
        k1, _j, sig1, det1, fd1 = causes[0]
        if sig1 == "peer_disconnect":
            continue
        # a local close that has TAKEN EFFECT before the first fault reaches the library: waiters get the plain closed
        # error (a graceful disconnect() that is still waiting for the device's answer has not closed anything yet: a
        # socket failure in that window is still the first fatal cause for everybody else who waits)
        if any(k < k1 and (force or st_ != "CONNECTED") for k, (sq_, force, st_) in zip(ix.disc_keys.get(c, []), ix.disc_calls.get(c, []))):
            continue
        T = ix.closed_seq.get(c)
        if T is not None and (ix.seq_turn[T], T) < k1:
            continue  # closed before the first delivered fault (e.g. a library timeout)
        fat = ix.fatal.get(c, [])
        if T is not None and ix.disc_calls.get(c) and any(sq < T for sq, _f, _s in ix.disc_calls[c]) and (not fat or T < fat[0][0]):
            # a graceful disconnect() that had been waiting reached its own end (answer or 10 s limit) and closed the
            # connection before the socket's failure was reported to the library, in the same instant: waiters legitimately
            # see the local close
            continue
        cancelled_ops = {(a, i) for _s, a, i in ix.cancels}
        for op in ix.ops:
            if op.conn != c or op.s1 is None or op.ok or op.cancelled or (op.actor, op.i) in cancelled_ops:
                continue
            k0 = (op.turn0, op.s0)
            ke = (ix.seq_turn[op.s1], op.s1)
            if not (k0 < k1 < ke):
                continue
            err = op.err or {}
            if err.get("cls") in OWN_FAILURES and not (err.get("cls") == "ConnectionNotEstablishedAPIError" and op.do in ("connect", "start", "finish")):
                # (a connect phase that was in flight when the connection died is interrupted with that cause; "not established
                # yet" from its next write would mean the cause got lost on the way)
                continue
            if op.do in ("disconnect",):
                continue
            if op.do in ("connect", "finish") and err.get("cls") in ("APIConnectionError", "BadNameAPIError", "InvalidAuthAPIError") and any((T is None or sq < T) and mt in (2, 4) for sq, mt, _d, _st, _tn, _t in ix.pp.get(c, [])):
                # the library's own verdict about a hello/login answer that was handed over before the fault closed the connection: that
                # answer is the earlier cause in stream order (the phase judges it when its task runs next)
                if err.get("cls") != "APIConnectionError" or "Incompatible API version" in (err.get("text") or ""):
                    continue
            ids_in_chain = [x.get("fault") for x in err.get("chain", []) if x.get("fault")]
            # a synchronously raising write in the turn of the first cause: processing an earlier frame of the same chunk
            # may have hit it before the later bytes were even parsed - either cause is legitimate for the waiter
            if ids_in_chain and any(sg == "write_raise" and kk[0] == k1[0] for kk, _j, sg, _d, _f in causes):
                continue
            if sig1 == "write_raise" and any(sg != "write_raise" and kk[0] == k1[0] for kk, _j, sg, _d, _f in causes):
                continue  # same turn as another cause: which one the library met first depends on what it was processing
            if op.do == "ble.connect":
                # (one discriminator for this call: it is not woken by the close at all, see the recorded finding)
                ok = bool(ids_in_chain) if sig1 in ("oserror", "send_oserror", "write_raise") else _sig_ok(sig1, det1, err, ix, fd1)[0]
                if not ok:
                    out.append(Violation("first-cause", "ble.connect", f"bluetooth_device_connect() in flight when {sig1} was delivered first, but it raised {err.get('cls')}: {err.get('text')}"))
                continue
            if sig1 in ("oserror", "send_oserror", "write_raise"):
                if not ids_in_chain:
                    out.append(Violation("first-cause", f"{sig1}:lost", f"{op.do} failed with {err.get('cls')} ({err.get('text')}) without the injected {det1} in its cause chain"))
                continue
            ok, want = _sig_ok(sig1, det1, err, ix, fd1)
            if not ok:
                out.append(Violation("first-cause", f"{sig1}->{err.get('cls')}", f"{op.do} in flight when {sig1} was delivered first, but it raised {err.get('cls')}: {err.get('text')} (want {want})"))
    return out


# ----------------------------------------------------------------------------------------


def gen_connect_fault_case(rng: random.Random) -> dict:
    """Connect-phase environment faults: the library's own timeouts have to end the call."""
    client: dict = {"keepalive": 20.0}
    device: dict = {}
    net: dict = {}
    kind = pick(rng, ["resolver", "mdns", "tcp", "handshake_silence", "hello_silence", "connect_silence", "wrong_order", "close_on_accept", "framing_mismatch", "slow_replies", "sock_api"])
    addrs = ["10.0.0.5"]
    if kind == "resolver":
        addrs = ["dev.example.com"]
        if rng.random() < 0.4:
            addrs.append("10.0.0.6")
        net["resolver"] = {"dev.example.com": {"result": pick(rng, ["hang", "error", "empty", [[4, "10.0.0.5"]], [[6, "fd00::5"], [4, "10.0.0.5"]]]), "latency": pick(rng, [0.0, 0.5, 29.9999, 30.0, 30.0001, 45.0])}}
        if rng.random() < 0.25:
            # several configured names, every lookup hangs: the resolve step as a whole has 30 s
            addrs = ["dev.example.com", "dev2.example.com", "dev3.example.com"][: rng.randint(2, 3)]
            net["resolver"] = {a: {"result": "hang", "latency": 0.0} for a in addrs}
    elif kind == "mdns":
        addrs = [pick(rng, ["mydev.local", "mydev"])]
        net["mdns"] = {"mydev": {"outcome": pick(rng, ["ok", "none", "error", "hang"]), "v4": ["10.0.0.5"], "v6": pick(rng, [[], ["fd00::5"]]), "latency": pick(rng, [0.01, 1.0, 2.999, 3.5])}}
        net["resolver"] = {addrs[0]: {"result": pick(rng, ["hang", "error", "empty", [[4, "10.0.0.6"]]]), "latency": pick(rng, [0.0, 1.0, 28.0])}}
    elif kind == "tcp":
        addrs = rng.sample(["10.0.0.5", "10.0.0.6", "fd00::5", "10.0.0.7"], rng.randint(1, 3))
    client["addresses"] = addrs
    gen_transport(rng, client, device, noise_p=0.4)
    net.update({k: v for k, v in gen_net(rng, [a for a in addrs]).items() if k not in net})
    plans = {}
    for a in ["10.0.0.5", "10.0.0.6", "fd00::5", "10.0.0.7"]:
        if kind == "tcp":
            plans[a] = [{"outcome": pick(rng, ["hang", "refused", "unreachable", "timedout", "ok", "netunreach_sync"]), "latency": pick(rng, [0.0, 0.05, 0.15, 5.0, 59.9999, 60.0001])}]
        else:
            plans[a] = [{"outcome": "ok", "latency": pick(rng, [0.0, 0.001, 0.05])}]
    net["connect"] = plans
    login = rng.random() < 0.6
    if kind == "handshake_silence":
        if device.get("transport") == "noise":
            device["silent_noise"] = pick(rng, ["hello", "handshake"])
        else:
            device["replies"] = {"HelloRequest": ["silent"]}
    elif kind == "hello_silence":
        device["replies"] = {"HelloRequest": ["silent"]}
    elif kind == "connect_silence":
        login = True
        device["replies"] = {"ConnectRequest": ["silent"]}
    elif kind == "wrong_order":
        login = True
        v = pick(rng, ["swap", "dup_hello", "connect_only", "extra_first"])
        if v == "swap":
            device["replies"] = {"HelloRequest": ["silent"], "ConnectRequest": [{"msgs": [["ConnectResponse", {}], ["HelloResponse", {"api_version_major": 1, "api_version_minor": 10, "name": "simdev"}]]}]}
        elif v == "dup_hello":
            device["replies"] = {"HelloRequest": [{"msgs": [["HelloResponse", {"api_version_major": 1, "api_version_minor": 10, "name": "simdev"}]] * 2}]}
        elif v == "connect_only":
            device["replies"] = {"HelloRequest": ["silent"]}
        else:
            device["replies"] = {"HelloRequest": [{"msgs": [["PingRequest", {}], ["HelloResponse", {"api_version_major": 1, "api_version_minor": 10, "name": "simdev"}]]}]}
    elif kind == "close_on_accept":
        device["on_connect"] = [{"then": pick(rng, ["fin", "rst"]), "delay": pick(rng, [0.0, 0.001, 0.05])}]
    elif kind == "framing_mismatch":
        # client and device disagree about the framing
        if device.get("transport") == "noise":
            client.pop("noise_psk", None)
        else:
            import base64

            client["noise_psk"] = base64.b64encode(bytes(rng.getrandbits(8) for _ in range(32))).decode()
            device["on_wire_error"] = pick(rng, ["close", "ignore"])
            if rng.random() < 0.5:
                device["on_connect"] = []
    elif kind == "slow_replies":
        device["reply_delay"] = pick(rng, [5.0, 29.9999, 30.0001, 40.0])
    steps: list[dict] = []
    if rng.random() < 0.5:
        steps.append({"do": "connect", "login": login})
    else:
        steps += [{"do": "start"}, {"do": "finish", "login": login}]
    steps += [{"do": "device_info"}, {"do": "disconnect"}]
    knobs = gen_knobs(rng)
    if kind == "sock_api":
        # the freshly connected socket fails an OS call the connect phase makes on it (peer reset right after connect)
        knobs["sock_fail"] = pick(rng, ["nodelay", "getpeername"])
    scn = {
        "family": "session",
        "kind": kind,
        "knobs": knobs,
        "client": client,
        "device": device,
        "net": net,
        "actors": [{"id": "a0", "at": {"t": 0.0}, "steps": steps}],
        "events": [],
        "end": 1500.0,
    }
    # optionally a second fault on top (pairs)
    if rng.random() < 0.4:
        trig = pick(rng, [{"t": pick(rng, [0.0, 0.01, 1.0, 29.0, 30.0, 61.0])}, {"on": "tcp_established", "delay": pick(rng, [0.0, 0.001, 10.0])}])
        scn = with_cause(scn, pick(rng, CAUSES), trig, pick(rng, ["pre", "post"]), rng)
    return scn


def gen_burst_case(rng: random.Random) -> dict:
    """Several callers issue the same request at the same instant; the device answers them in one segment, answers one
    of them twice, or answers late: every call still ends with its result or a classified error."""
    client: dict = {"addresses": ["10.0.0.5"], "keepalive": 20.0}
    device: dict = {}
    gen_transport(rng, client, device, noise_p=0.3)
    kind = pick(rng, ["device_info", "device_info", "list_entities"])
    if kind == "device_info":
        di = ["DeviceInfoResponse", {"name": "simdev"}]
        device["replies"] = {"DeviceInfoRequest": [{"msgs": [di] * pick(rng, [1, 1, 2, 3]), "delay": pick(rng, [0.0, 0.0, 0.01])}]}
    else:
        le = [["ListEntitiesSwitchResponse", {"key": 1}], ["ListEntitiesDoneResponse", {}]]
        device["replies"] = {"ListEntitiesRequest": [{"msgs": le * pick(rng, [1, 1, 2]), "delay": pick(rng, [0.0, 0.01])}]}
    actors = [{"id": "a0", "at": {"t": 0.0}, "steps": [{"do": "connect", "login": rng.random() < 0.5}, {"do": "sleep", "d": 3.0}, {"do": "disconnect"}]}]
    for j in range(rng.randint(2, 4)):
        actors.append({"id": f"w{j}", "at": {"on": "state", "match": {"new": "CONNECTED"}, "delay": pick(rng, [0.0, 0.0, 0.001])}, "steps": [{"do": kind}, {"do": kind}], "eager": rng.random() < 0.7})
    return {"family": "session", "kind": "burst", "knobs": gen_knobs(rng), "client": client, "device": device, "net": {"cuts": pick(rng, [{"mode": "coalesce"}, {"mode": "coalesce"}, {"mode": "sends"}]), "c2d_latency": pick(rng, [0.0, 0.001]), "d2c_latency": [pick(rng, [0.0, 0.001])]}, "actors": actors, "events": [], "end": 200.0}


def gen_raiser_case(rng: random.Random) -> dict:
    """A subscriber callback of the application raises while requests are outstanding: the exception travels out of
    data_received, the transport reports it with connection_lost - the waiting calls still end with a classified error."""
    client: dict = {"addresses": ["10.0.0.5"], "keepalive": 20.0}
    device: dict = {"replies": {"DeviceInfoRequest": ["silent"], "ListEntitiesRequest": ["silent"]}}
    gen_transport(rng, client, device, noise_p=0.3)
    actors = [{"id": "a0", "at": {"t": 0.0}, "steps": [{"do": "connect", "login": rng.random() < 0.5}, {"do": "add_cb", "sid": "s0", "types": ["SensorStateResponse"], "behaviors": [{"on_call": 1, "do": "raise"}]}, {"do": "sleep", "d": 5.0}, {"do": "disconnect"}]}]
    for j in range(rng.randint(1, 3)):
        actors.append({"id": f"w{j}", "at": {"on": "state", "match": {"new": "CONNECTED"}, "delay": pick(rng, [0.0, 0.001, 0.1])}, "steps": [{"do": pick(rng, ["device_info", "list_entities"])}], "eager": rng.random() < 0.7})
    events = [{"at": {"on": "state", "match": {"new": "CONNECTED"}, "delay": pick(rng, [0.2, 0.5])}, "do": "dev", "act": {"msgs": [["SensorStateResponse", {"key": 2, "state": 1.0}]] + ([["SwitchStateResponse", {"key": 1, "state": True}]] if rng.random() < 0.5 else []), "latency": 0.0}}]
    return {"family": "session", "kind": "raiser", "knobs": gen_knobs(rng), "client": client, "device": device, "net": {"cuts": {"mode": "coalesce"}, "c2d_latency": 0.001, "d2c_latency": [0.001]}, "actors": actors, "events": events, "end": 200.0}


def gen_late_stall_case(rng: random.Random) -> dict:
    """A connect attempt made long after the loop started, against a peer that accepts TCP and then stalls in the handshake
    or the hello: the phase bounds are durations, whatever the clock reads when they start."""
    import base64

    client: dict = {"addresses": ["10.0.0.5"], "keepalive": 20.0}
    device: dict = {}
    if rng.random() < 0.7:
        psk = base64.b64encode(bytes(rng.getrandbits(8) for _ in range(32))).decode()
        client["noise_psk"] = psk
        device.update({"transport": "noise", "psk": psk, "eph_seed": "%x" % rng.getrandbits(32), "silent_noise": pick(rng, ["hello", "handshake"])})
    else:
        device["replies"] = {"HelloRequest": ["silent"]}
    steps = [{"do": "sleep", "d": pick(rng, [40.0, 100.0, 1000.0, 86400.0])}, {"do": "connect", "login": rng.random() < 0.5}]
    return {"family": "session", "kind": "late-stall", "knobs": gen_knobs(rng), "client": client, "device": device, "net": {"cuts": {"mode": "coalesce"}, "c2d_latency": 0.001, "d2c_latency": [0.001]}, "actors": [{"id": "a0", "at": {"t": 0.0}, "steps": steps}], "events": [], "end": 90000.0, "max_time": 200000.0}


class C09(CheckBase):
    pid = "C09"
    level = "fault_enumeration"
    quick_cases = 240
    thorough_cases = 2400

    def cases(self, rng: random.Random, tier: str, idx: int) -> Iterable[dict]:
        from ..engine import run_scenario

        r = idx % 4
        if r == 0:
            base = gen_c08_base(rng)
            if idx % 24 == 0:
                # always present: an encrypted device announcing another name than the expected one, with a caller
                # cancellation swept over every turn (the error the caller gets still names the device that answered)
                if "noise_psk" not in base["client"]:
                    import base64 as _b64

                    psk = _b64.b64encode(bytes(rng.getrandbits(8) for _ in range(32))).decode()
                    base["client"]["noise_psk"] = psk
                    base["device"].update({"transport": "noise", "psk": psk, "eph_seed": "%x" % rng.getrandbits(32)})
                base["device"].pop("noise_hello_name", None)
                make_rejecting(base, rng, kind="name")
                yield base
                T0 = run_scenario(base).turns
                for n in range(1, T0 + 1):
                    for phase in ("pre", "post"):
                        yield with_cause(base, "cancel", {"turn": n}, phase, rng)
                return
            if idx % 3 == 0:
                # the attempt is refused by a verdict of the library itself; every cause is swept over its turns too
                make_rejecting(base, rng)
            if idx % 7 == 3:
                # an awaited request whose message is larger than anything the device expects (and, encrypted, larger than a
                # frame can carry): whatever becomes of it, the caller gets a classified error or its timeout
                base["actors"].append({"id": "big", "at": {"on": "state", "match": {"new": "CONNECTED"}, "delay": pick(rng, [0.0, 0.01])}, "steps": [{"do": "request", "msgs": [["HomeAssistantStateResponse", {"entity_id": "a.b", "state": {"gen": [pick(rng, [65600, 70000, 140000]), 3]}}]], "types": ["SubscribeLogsResponse"], "stop": {"p": "never"}, "timeout": 3.0}]})
            yield base
            if base["device"].get("transport") == "noise" and "on_handshake" not in base["device"]:
                # the deviation sits right behind the device's handshake reply, in the same write (usually the same read):
                # the handshake has just completed when the connection is closed - the attempt reports that first cause
                import copy as _copy

                for act in ({"raw_hex": "000003aabbcc"}, {"msgs": [{"type": 10, "payload_hex": "0aff01", "name": "#bad_payload"}]}, {"msgs": [["DisconnectRequest", {}]]}):
                    v = _copy.deepcopy(base)
                    v["device"]["on_handshake"] = [dict(act, latency=pick(rng, [None, 0.0]))]
                    if rng.random() < 0.7:
                        v.setdefault("net", {})["cuts"] = {"mode": "coalesce"}
                    yield v
            T = run_scenario(base).turns
            causes = CAUSES if tier == "thorough" else rng.sample(CAUSES, 5)
            stride = 1 if (tier == "thorough" or T <= 40) else 2
            for n in range(1, T + 1, stride):
                for cause in causes:
                    for phase in (["pre", "post"] if cause in ("force_disconnect", "disconnect", "cancel") else ["pre"]):
                        yield with_cause(base, cause, {"turn": n}, phase, rng)
        elif r == 1:
            # ordered pairs of faults, same turn and apart, both orders
            base = gen_c08_base(rng)
            if idx % 5 == 0:
                make_rejecting(base, rng)
            T = run_scenario(base).turns
            for _ in range(40 if tier == "quick" else 150):
                n = rng.randint(1, T)
                c1, c2 = rng.sample(CAUSES, 2)
                k = pick(rng, [0, 0, 1, 2, 5])
                a = with_cause(base, c1, {"turn": n}, pick(rng, ["pre", "post"]), rng)
                a = with_cause(a, c2, {"turn": n + k}, pick(rng, ["pre", "post"]), rng)
                yield a
                b = with_cause(base, c2, {"turn": n}, pick(rng, ["pre", "post"]), rng)
                b = with_cause(b, c1, {"turn": n + k}, pick(rng, ["pre", "post"]), rng)
                yield b
            # always: a local graceful disconnect that is still waiting for the device's answer when the socket fails
            # (the waiters must still see the socket's error, not a bare 'closed')
            for c2 in ("fin", "rst", "eio", "tx_error", "garbage"):
                n = rng.randint(max(1, T // 2), T)
                a = with_cause(base, "disconnect", {"turn": n}, pick(rng, ["pre", "post"]), rng)
                a["device"].setdefault("replies", {})["DisconnectRequest"] = ["silent"]
                yield with_cause(a, c2, {"turn": n + pick(rng, [1, 2, 3, 5])}, "pre", rng)
        else:
            for k in range(30 if tier == "quick" else 60):
                yield gen_burst_case(rng) if k % 6 == 5 else (gen_raiser_case(rng) if k % 6 == 4 else (gen_late_stall_case(rng) if k % 12 == 3 else gen_connect_fault_case(rng)))

    def oracle(self, run: Any, scn: dict) -> list[Violation]:
        ix = Index(run.history)
        return bounded_oracle(ix, scn) + classified_oracle(ix, scn) + first_cause_oracle(ix)


CHECK = C09()
