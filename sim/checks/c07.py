"""C07 - stop callback fires exactly once per established session, with the right reason."""
from __future__ import annotations

import copy
import random
from typing import Any, Iterable

from ..runner import CheckBase, Violation
from .c05 import PHASE_ANCHORS
from .common import make_rejecting, CAUSES, gen_session, pick, with_cause
from .hist import Index

CLOSE_CAUSES = [c for c in CAUSES if c != "cancel"] + ["cancel"]


def on_stop_oracle(ix: Index) -> list[Violation]:
    out: list[Violation] = []
    # connections on which the device received a DisconnectRequest of the client: only disconnect() writes one, so the
    # graceful disconnect had been initiated (whatever the state was when the call was made) before the close
    asked: set = set()
    for ev in ix.h:
        if ev[3] == "dev_rx" and ev[4].get("name") == "DisconnectRequest":
            asked.add(ix.fd_conn.get(ix.cid_fd.get(ev[4]["conn"])))
    for c in ix.conns:
        calls = ix.on_stop.get(c, [])
        connected = c in ix.connected_seq
        closed = c in ix.closed_seq
        if not connected:
            if calls:
                out.append(Violation("stop-without-session", str(len(calls)), f"{c} never reached CONNECTED but on_stop was called {len(calls)}x"))
            continue
        if not closed:
            if calls:
                out.append(Violation("stop-before-close", str(len(calls)), f"{c} is not closed but on_stop was called"))
            # the transport under an established session is gone (its socket has been closed) - the session has ended,
            # whatever the library made of the report: its stop callback is due
            fds = [ev[4]["fd"] for ev in ix.h if ev[3] == "tr_new" and ix.fd_conn.get(ev[4]["fd"]) == c]  # (not the losers of a connect race)
            gone = [ev for ev in ix.h if ev[3] == "sock_close" and ev[4].get("fd") in fds]
            forced = [sq for sq, force, _st in ix.disc_calls.get(c, []) if force]
            if forced and not calls and ix.run_end and ix.run_end[1] > ix.seq_turn[forced[0]] + 2:
                # disconnect(force=True) closes at once: when it has returned the session is over and its stop callback is due
                out.append(Violation("stop-missing", "force-returned", f"{c} was established and disconnect(force=True) was called on it at turn {ix.seq_turn[forced[0]]}, but the connection never closed and the stop callback never ran"))
                continue
            if fds and gone and not calls and ix.run_end and ix.run_end[1] > gone[0][1] + 2:
                out.append(Violation("stop-missing", "transport-gone", f"{c} was established, its socket was closed at turn {gone[0][1]}, but the connection never closed and the stop callback never ran"))
            continue
        if len(calls) != 1:
            out.append(Violation("stop-count", str(len(calls)), f"{c} reached CONNECTED and closed; on_stop called {len(calls)}x (want exactly 1)"))
            continue
        seq_stop, expected = calls[0]
        if seq_stop < ix.connected_seq[c]:
            out.append(Violation("stop-before-connected", "", f"{c}: on_stop before CONNECTED"))
        T = ix.closed_seq[c]
        must_true = False
        may_true = False
        why = []
        for seq, force, state in ix.disc_calls.get(c, []):
            if seq > T:
                continue
            may_true = True
            # (also when the call was made while the connect phases were still running: the disconnect is initiated by the
            # call, not by the moment the library gets round to sending its request)
            must_true = True
            why.append(f"{'force_' if force else ''}disconnect() called in state {state}")
        if c in asked:
            must_true = may_true = True
            why.append("the client's DisconnectRequest reached the device")
        for seq, mtype, _data, state, _turn, _t in ix.pp.get(c, []):
            if seq <= T and mtype == 5:
                may_true = True
                # relaxation: a request delivered before the transport handshake had been
                # acknowledged (state SOCKET_OPENED: same chunk as the handshake frame, no
                # handler can exist yet) is outside the protocol; either flag is accepted
                if state in ("HANDSHAKE_COMPLETE", "CONNECTED"):
                    must_true = True
                    why.append("DisconnectRequest delivered")
        if must_true and not expected:
            out.append(Violation("stop-flag", "want-true", f"{c}: on_stop(False) although a graceful disconnect had been initiated before the close ({'; '.join(why)})"))
        if not may_true and expected:
            out.append(Violation("stop-flag", "want-false", f"{c}: on_stop(True) although no disconnect call and no device DisconnectRequest preceded the close"))
    # the user-level callback carries the flag of ITS session (nothing carried over from an earlier attempt of the client)
    conn_flags = [e for _sq, e in sorted(x for c in ix.conns for x in ix.on_stop.get(c, []))]
    user_flags = [e for _sq, _tag, e in sorted(ix.user_on_stop)]
    if len(conn_flags) == len(user_flags) and conn_flags != user_flags and all(cn.startswith("conn") for cn in ix.conns):
        k = next(i for i, (a, b) in enumerate(zip(conn_flags, user_flags)) if a != b)
        out.append(Violation("user-stop-flag", f"{user_flags[k]}", f"stop callback #{k} of the client was invoked with {user_flags[k]}, the session it belongs to ended with expected={conn_flags[k]}"))
    # user-level callback follows the connection-level one (APIClient schedules it as a background task)
    n_conn = sum(len(v) for v in ix.on_stop.values())
    if ix.audit is not None and not ix.audit.get("tasks") and len(ix.user_on_stop) != n_conn and all(cn.startswith("conn") for cn in ix.conns):
        client_conns = [c for c in ix.conns]
        if ix.user_on_stop or n_conn:
            # raw connection objects (conn.new) call the recorder directly, so both counts agree there too
            out.append(Violation("user-stop-count", f"{len(ix.user_on_stop)}!={n_conn}", f"user on_stop ran {len(ix.user_on_stop)}x, connection-level on_stop {n_conn}x"))
    return out


class C07(CheckBase):
    pid = "C07"
    level = "exploration"
    quick_cases = 720
    thorough_cases = 7200

    def _cases(self, rng: random.Random, tier: str, idx: int) -> Iterable[dict]:
        r = idx % 6
        if r in (0, 1, 2):
            base = gen_session(rng)
            if idx % 5 == 2:
                make_rejecting(base, rng)  # a session that is never established: no stop callback, whatever else happens
            scn = base
            n = rng.randint(1, 4)
            # all causes share one anchor in a third of the runs (same turn / adjacent turns)
            shared = copy.deepcopy(pick(rng, PHASE_ANCHORS + [{"on": "state", "match": {"new": "CONNECTED"}}] * 4))
            if "delay" not in shared and rng.random() < 0.6:
                shared["delay"] = pick(rng, [0.0005, 0.002, 0.05, 1.0, 7.0])
            for j in range(n):
                if rng.random() < 0.5:
                    trig = copy.deepcopy(shared)
                    if rng.random() < 0.4:
                        trig.pop("delay", None)
                        trig["turns"] = pick(rng, [0, 1, 2])
                else:
                    trig = copy.deepcopy(pick(rng, PHASE_ANCHORS))
                    if rng.random() < 0.5:
                        trig["delay"] = pick(rng, [0.0005, 0.002, 0.05, 1.0])
                scn = with_cause(scn, pick(rng, CLOSE_CAUSES), trig, pick(rng, ["pre", "post"]), rng)
            yield scn
        elif r in (3, 4):
            from ..engine import run_scenario

            base = gen_session(rng, long_p=0.1)
            # a fixed second cause, then sweep the first one over every turn
            second = pick(rng, CLOSE_CAUSES)
            trig2 = {"on": "state", "match": {"new": "CONNECTED"}, "delay": pick(rng, [0.0, 0.001, 0.01])}
            if rng.random() < 0.5:
                base = with_cause(base, second, trig2, pick(rng, ["pre", "post"]), rng)
            yield base
            T = run_scenario(base).turns
            causes = rng.sample(CLOSE_CAUSES, 3 if tier == "quick" else 5)
            for n in range(1, T + 1, 1 if T <= 40 else 2):
                for cause in causes:
                    for phase in (["pre", "post"] if cause in ("force_disconnect", "disconnect", "cancel") else ["pre"]):
                        yield with_cause(base, cause, {"turn": n}, phase, rng)
        else:
            scn = gen_session(rng)
            sub = (idx // 6) % 8  # (r == 5 here: three of eight of these cases go to the fixed families below)
            if sub == 3:
                # the stop callback of one session is still busy (it awaits something) when the next session of the same
                # client, set up meanwhile, ends as well: each established session gets its own call
                d_stop = pick(rng, [3.0, 10.0])
                scn["on_stop_delay"] = d_stop
                scn["device"].pop("reply_delay", None)
                scn["device"].pop("replies", None)
                login = rng.random() < 0.5
                scn["actors"] = [{"id": "a0", "at": {"t": 0.0}, "steps": [{"do": "connect", "login": login, "stop_tag": "s1"}, {"do": "sleep", "d": 2.0}, {"do": "connect", "login": login, "stop_tag": "s2"}, {"do": "sleep", "d": 30.0}]}]
                scn["net"]["connect"] = {a: [{"outcome": "ok", "latency": 0.001}] for a in scn["client"]["addresses"]}
                scn["events"] = []
                for nth, dl in ((1, 1.0), (2, pick(rng, [0.5, 1.0]))):
                    how = pick(rng, ["fin", "rst", "dev_disconnect", "garbage"])
                    scn = with_cause(scn, how, {"on": "state", "match": {"new": "CONNECTED"}, "nth": nth, "delay": dl}, "pre", rng)
                scn["end"] = 100.0
                yield scn
                return
            if sub == 2:
                # while the session is live another part of the application calls connect()/start_connection() with ITS stop
                # callback (or none) and is refused; whatever ends the session later, the callback given when the session was
                # set up is the one that runs
                scn["actors"] = [{"id": "a0", "at": {"t": 0.0}, "steps": [{"do": "connect", "login": rng.random() < 0.5, "stop_tag": "session-owner"}, {"do": "sleep", "d": 30.0}]},
                                 {"id": "other", "at": {"on": "state", "match": {"new": "CONNECTED"}, "delay": pick(rng, [0.0, 0.1, 1.0])}, "steps": [{"do": pick(rng, ["connect", "start"]), "login": False, "stop_tag": "refused-caller", **({"no_on_stop": True} if rng.random() < 0.4 else {})}]}]
                scn["events"] = []
                scn["device"].pop("reply_delay", None)
                scn["net"]["connect"] = {a: [{"outcome": "ok", "latency": 0.001}] for a in scn["client"]["addresses"]}
                scn["expect_stop_tag"] = "session-owner"
                scn = with_cause(scn, pick(rng, ["fin", "rst", "garbage", "dev_disconnect", "force_disconnect", "disconnect"]), {"on": "state", "match": {"new": "CONNECTED"}, "delay": pick(rng, [2.0, 3.0])}, "pre", rng)
                yield scn
                return
            if sub in (1, 5):
                # disconnect() is called while the hello is outstanding; the device answers the hello and drops the connection
                # right behind it: the session is established and lost again before the waiting disconnect() gets to send
                # its request - it had been asked for all the same
                hello = {"api_version_major": 1, "api_version_minor": 10, "name": "simdev", "server_info": "sim"}
                login = rng.random() < 0.5
                last = "ConnectRequest" if login else "HelloRequest"
                msg = ["ConnectResponse", {}] if login else ["HelloResponse", hello]
                scn["client"].pop("expected_name", None)
                # (or stays: then the waiting disconnect() goes on to say goodbye to the session that was established meanwhile)
                drop = pick(rng, ["fin", "rst", None])
                scn["device"]["replies"] = {last: [{"msgs": [msg], "delay": pick(rng, [0.3, 1.0, 4.0]), **({"then": drop} if drop else {})}]}
                scn["device"].pop("reply_delay", None)
                scn["actors"] = [{"id": "a0", "at": {"t": 0.0}, "steps": [{"do": "connect", "login": login}, {"do": "sleep", "d": 30.0}]}, {"id": "closer", "at": "manual", "steps": [{"do": "disconnect"}]}]
                scn["events"] = [{"at": {"on": "state", "match": {"new": "HANDSHAKE_COMPLETE"}, "delay": pick(rng, [0.0, 0.1])}, "do": "start_actor", "actor": "closer", "phase": "post"}]
                scn["net"]["connect"] = {a: [{"outcome": "ok", "latency": 0.001}] for a in scn["client"]["addresses"]}
                scn["net"]["cuts"] = pick(rng, [{"mode": "coalesce"}, {"mode": "sends"}])
                yield scn
                return
            if sub == 4:
                # the usual escalation: a graceful disconnect() that the caller gives up on (the device does not answer, the
                # caller's own timeout cancels the call), then disconnect(force=True) - the session is over when that returns
                scn["device"].setdefault("replies", {})["DisconnectRequest"] = ["silent"]
                scn["device"].pop("reply_delay", None)
                scn["actors"] = [{"id": "a0", "at": {"t": 0.0}, "steps": [{"do": "connect", "login": rng.random() < 0.5}, {"do": "sleep", "d": 60.0}]},
                                 {"id": "closer", "at": "manual", "steps": [{"do": "disconnect"}]}, {"id": "forcer", "at": "manual", "steps": [{"do": "disconnect", "force": True}]}]
                t_call = pick(rng, [0.5, 1.0])
                t_giveup = t_call + pick(rng, [0.05, 0.5, 3.0])
                scn["events"] = [{"at": {"on": "state", "match": {"new": "CONNECTED"}, "delay": t_call}, "do": "start_actor", "actor": "closer", "phase": "post"},
                                 {"at": {"on": "state", "match": {"new": "CONNECTED"}, "delay": t_giveup}, "do": "poke", "what": "cancel", "target": "closer", "phase": "pre"},
                                 {"at": {"on": "state", "match": {"new": "CONNECTED"}, "delay": t_giveup + pick(rng, [0.0, 0.01, 1.0])}, "do": "start_actor", "actor": "forcer", "phase": "post"}]
                scn["net"]["connect"] = {a: [{"outcome": "ok", "latency": 0.001}] for a in scn["client"]["addresses"]}
                scn["end"] = 100.0
                yield scn
                return
            if sub == 0:
                # a disconnect() that gives up waiting for a slow hello (5 s), then the hello completes after all, the caller
                # of disconnect() is cancelled while it waits for the DisconnectResponse, and finally something else ends the
                # session: it was established, so its stop callback runs - once
                hello_d = pick(rng, [5.5, 6.0, 7.0, 9.0])
                scn["device"]["replies"] = {"HelloRequest": [{"default": True, "delay": hello_d}], "DisconnectRequest": ["silent"]}
                scn["device"].pop("reply_delay", None)
                scn["actors"] = [{"id": "a0", "at": {"t": 0.0}, "steps": [{"do": "connect", "login": False}, {"do": "sleep", "d": 60.0}]}, {"id": "closer", "at": "manual", "steps": [{"do": "disconnect"}]}]
                t_call = pick(rng, [0.0, 0.2])
                scn["events"] = [{"at": {"on": "state", "match": {"new": "HANDSHAKE_COMPLETE"}, "delay": t_call}, "do": "start_actor", "actor": "closer", "phase": "post"},
                                 {"at": {"on": "state", "match": {"new": "CONNECTED"}, "delay": pick(rng, [0.5, 2.0])}, "do": "poke", "what": "cancel", "target": "closer", "phase": "pre"}]
                scn = with_cause(scn, pick(rng, ["fin", "rst", "garbage", "dev_disconnect", "eio"]), {"on": "state", "match": {"new": "CONNECTED"}, "delay": pick(rng, [3.0, 4.0])}, "pre", rng)
                scn["net"]["connect"] = {a: [{"outcome": "ok", "latency": 0.001}] for a in scn["client"]["addresses"]}
                scn["end"] = 200.0
                yield scn
                return
            if rng.random() < 0.2:
                # the application lets go of its APIClient while the session lives (the loop keeps transport, protocol and
                # connection alive): whatever ends the session later, the stop callback given at connect time still runs
                main = scn["actors"][0]["steps"]
                k = next((i for i, st in enumerate(main) if st["do"] in ("connect", "finish")), 0)
                scn["actors"] = [{"id": "a0", "at": {"t": 0.0}, "steps": main[: k + 1] + [{"do": "drop_client"}, {"do": "sleep", "d": 30.0}]}]
                trig = {"on": "state", "match": {"new": "CONNECTED"}, "delay": pick(rng, [0.01, 0.5, 3.0])}
                how = pick(rng, ["dev", "fin", "rst", "garbage"])
                scn["events"] = [e for e in scn["events"] if e.get("do") == "dev"]
                if how == "dev":
                    scn["events"].append({"at": trig, "do": "dev", "act": {"msgs": [["DisconnectRequest", {}]], "latency": 0.0}})
                else:
                    scn = with_cause(scn, how, trig, "pre", rng)
                yield scn
                return
            if rng.random() < 0.25:
                # an earlier attempt of the same client that never got connected and was ended by the caller; the session
                # established afterwards is ended by the device: its stop reason must not inherit anything
                main = scn["actors"][0]["steps"]
                k = next((i for i, st in enumerate(main) if st["do"] in ("connect", "finish")), 0)
                first = pick(rng, [[{"do": "start"}, {"do": "disconnect", "force": rng.random() < 0.5}], [{"do": "start"}, {"do": "disconnect", "force": True}, {"do": "start"}, {"do": "disconnect"}]])
                scn["actors"] = [{"id": "a0", "at": {"t": 0.0}, "steps": first + [{"do": "connect", "login": rng.random() < 0.5}, {"do": "sleep", "d": 30.0}]}]
                scn["events"] = [e for e in scn["events"] if e.get("do") == "dev"]
                trig = {"on": "state", "match": {"new": "CONNECTED"}, "delay": pick(rng, [0.05, 1.0])}
                scn = with_cause(scn, pick(rng, ["fin", "rst", "garbage", "eio"]), trig, "pre", rng)
                scn["net"]["connect"] = {a: [{"outcome": "ok", "latency": 0.001}] for a in scn["client"]["addresses"]}
                yield scn
                return
            if rng.random() < 0.7:
                # the application reconnects from inside its stop callback (at once or after yielding); the session made
                # there ends later for another reason: its stop callback has to run as well
                scn["on_stop_do"] = {"do": pick(rng, ["connect", "connect", "start"]), "yields": pick(rng, [0, 0, 1, 2]), "max": pick(rng, [1, 1, 2]), "login": rng.random() < 0.5}
                tail: list = [{"do": "sleep", "d": pick(rng, [0.5, 2.0])}]
                how = pick(rng, ["disconnect", "force", "dev", "fin"])
                if how in ("disconnect", "force"):
                    tail.append({"do": "disconnect", "force": how == "force"})
                else:
                    tail.append({"do": "sleep", "d": 5.0})
                    trig = {"on": "op_end", "match": {"actor": "onstop"}, "delay": pick(rng, [0.01, 1.0])}
                    if how == "dev":
                        scn["events"].append({"at": trig, "do": "dev", "act": {"msgs": [["DisconnectRequest", {}]], "latency": 0.0}})
                    else:
                        scn["events"].append({"at": trig, "do": "fault", "kind": "fin", "latency": 0.0})
                scn["actors"][0]["steps"] += tail
            yield scn

    def cases(self, rng: random.Random, tier: str, idx: int) -> Iterable[dict]:
        for scn in self._cases(rng, tier, idx):
            if idx % 7 == 5 and "client" in scn:
                # the client object was built in synchronous set-up code, while another (never running) loop was current
                scn["client"]["ctor_loop"] = "other"
            yield scn

    def oracle(self, run: Any, scn: dict) -> list[Violation]:
        ix = Index(run.history)
        out = on_stop_oracle(ix)
        want = scn.get("expect_stop_tag")
        if want is not None:
            tags = [tag for _sq, tag, _e in sorted(ix.user_on_stop)]
            if any(c in ix.connected_seq and c in ix.closed_seq for c in ix.conns) and tags != [want]:
                out.append(Violation("stop-callback-identity", str(tags), f"the session was set up with the stop callback of {want!r}; callbacks invoked when it ended: {tags}"))
        return out


CHECK = C07()
