"""C06 - sessions only with a compatible, correctly named, authenticated device."""
from __future__ import annotations

import base64
import itertools
import random
from typing import Any, Iterable

from ..runner import CheckBase, Violation
from .common import gen_cuts, gen_knobs, pick
from .hist import Index

MAJORS = [0, 1, 2, 3, 4]
MINORS = [0, 10, 11, 4294967295]
LONG = "n" * 63
API_NAMES = ["", "simdev", "other", "sïmdëv", "SimDev", "sim_dev", LONG + "x", "simdev\n", "sim\u200bdev", "dev"]  # (names that do not print; a name that is part of the expected one)
NOISE_NAMES = [None, "simdev", "other", "", "SIMDEV", "sim_dev", LONG + "-2", "sim"]
ORDERS = ["normal", "split", "reversed", "dup_hello", "one_by_one", "second_hello"]


def matrix() -> list[tuple]:
    out = []
    for major, minor, api_name, expected, login, bad_pw in itertools.product(MAJORS, MINORS, API_NAMES, [None, "simdev", "sim-dev", LONG], [False, True], [False, True]):
        for nname in NOISE_NAMES:
            out.append((major, minor, api_name, nname, expected, login, bad_pw))
    return out


_MATRIX = matrix()


def build(rng: random.Random, combo: tuple, transport: str, order: str) -> dict:
    major, minor, api_name, nname, expected, login, bad_pw = combo
    client: dict = {"addresses": ["10.0.0.5"], "keepalive": 20.0}
    if expected is not None:
        client["expected_name"] = expected
    if rng.random() < 0.5:
        client["password"] = "pw"
    hello = {"api_version_major": major, "api_version_minor": minor, "name": api_name, "server_info": "sim"}
    device: dict = {"hello": hello, "invalid_password": bad_pw}
    if transport == "noise":
        psk = base64.b64encode(bytes(rng.getrandbits(8) for _ in range(32))).decode()
        client["noise_psk"] = psk
        device.update({"transport": "noise", "psk": psk, "eph_seed": "%x" % rng.getrandbits(32)})
        if nname is None:
            device["noise_hello_name"] = False
        else:
            device["noise_name"] = nname
    hr = ["HelloResponse", hello]
    cr = ["ConnectResponse", {"invalid_password": bad_pw}]
    if order == "split":
        d1 = pick(rng, [0.0, 0.01])
        device["replies"] = {"HelloRequest": [{"msgs": [hr], "delay": d1}], "ConnectRequest": [{"msgs": [cr], "delay": d1 + pick(rng, [0.0, 0.02, 0.5])}]}
    elif order == "reversed" and login:
        device["replies"] = {"HelloRequest": ["silent"], "ConnectRequest": [{"msgs": [cr, hr]}]}
    elif order == "dup_hello":
        device["replies"] = {"HelloRequest": [{"msgs": [hr, hr]}]}
    elif order == "second_hello":
        # the device answers the hello a second time, now with an acceptable answer (or, the other way round, a refusing
        # one): the first answer is the device's answer
        other = {"api_version_major": 1, "api_version_minor": 10, "name": expected or "simdev", "server_info": "sim"} if rng.random() < 0.7 else {"api_version_major": 3, "api_version_minor": 0, "name": "zzz", "server_info": "sim"}
        hr2 = ["HelloResponse", other]
        device["replies"] = {"HelloRequest": [pick(rng, [{"msgs": [hr, hr2]}, {"msgs": [hr, hr2], "split": True}])]}
    elif order == "one_by_one":
        device["replies"] = {"HelloRequest": [{"msgs": [hr], "split": True}], "ConnectRequest": [{"msgs": [cr], "split": True, "delay": 0.001}]}
    # close coincidence: the device ends the session right behind its verdict (same write, usually the same chunk);
    # the verdict came first in stream order, so the specific error is still what the call must raise
    trailer = None
    if order in ("normal", "split", "one_by_one") and rng.random() < 0.3:
        trailer = pick(rng, ["dev_disconnect", "bad_payload", "dev_disconnect+state", "fin", "fin"] + (["second_verdict"] * 2 if login else []))  # (a reset could discard the verdict unread)
        # second_verdict: a further login answer saying the opposite sits behind the verdict - the first answer is the device's
        tmsgs: list = {"dev_disconnect": [["DisconnectRequest", {}]], "bad_payload": [{"type": 10, "payload_hex": "0aff01", "name": "#bad_payload"}], "dev_disconnect+state": [["DisconnectRequest", {}], ["SwitchStateResponse", {"key": 1, "state": True}]], "fin": [], "second_verdict": [["ConnectResponse", {"invalid_password": not bad_pw}]]}[trailer]
        last_req, last_msg = ("ConnectRequest", cr) if login else ("HelloRequest", hr)
        rep = device.setdefault("replies", {}).get(last_req)
        if rep and isinstance(rep[0], dict):
            rep[0]["msgs"] = list(rep[0]["msgs"]) + tmsgs
        else:
            device["replies"][last_req] = [{"msgs": [last_msg] + tmsgs}]
        if trailer == "fin":
            # the device drops the TCP connection right behind its verdict: whatever the library still tries to write then
            # fails - the verdict it has received in full is still what the call reports
            device["replies"][last_req][0]["then"] = trailer
    if expected is not None and rng.random() < 0.15:
        # the expected name is configured on the client between the two connect phases (public setter)
        client.pop("expected_name", None)
        steps = [{"do": "start"}, {"do": "set_expected_name", "name": expected}, {"do": "finish", "login": login}]
    else:
        steps = [{"do": "connect", "login": login}] if rng.random() < 0.6 else [{"do": "start"}, {"do": "finish", "login": login}]
    steps.append({"do": "sleep", "d": 0.5})
    steps.append({"do": "disconnect"})
    net_extra: dict = {}
    if api_name in ("other", "dev", "simdev") and rng.random() < 0.3:
        # the device is dialled under the mDNS name it announces itself with (a renamed or swapped device answers under
        # the address of the old one): how it was reached has no say in the name check
        client["addresses"] = [api_name + pick(rng, [".local", ".local.", ""])]
        net_extra = {"mdns": {api_name: {"outcome": "ok", "v4": ["10.0.0.5"], "v6": [], "latency": 0.01}}}
    return {
        "family": "session",
        "combo": {"major": major, "minor": minor, "api_name": api_name, "noise_name": nname if transport == "noise" else None, "expected": expected, "login": login, "bad_pw": bad_pw, "order": order if (order != "reversed" or login) else "normal", "transport": transport, "trailer": trailer},
        "knobs": gen_knobs(rng),
        "client": client,
        "device": device,
        "net": {"cuts": gen_cuts(rng), "c2d_latency": pick(rng, [0.0, 0.001]), "d2c_latency": [pick(rng, [0.0, 0.001, 0.02])], **net_extra},
        "actors": [{"id": "a0", "at": {"t": 0.0}, "steps": steps}],
        # in a tenth of the runs the transport refuses every further write from the moment the device has sent its last
        # answer (a uvloop transport whose peer is gone): nothing the library may still want to say changes the verdict
        "events": [{"at": {"on": "dev_tx", "match": {"name": "ConnectResponse" if login else "HelloResponse"}}, "do": "fault", "kind": "write_raises", "always": True, "exc": pick(rng, ["OSError", "RuntimeError"])}] if rng.random() < 0.1 else [],
        "end": 200.0,
    }


def handshake_oracle(ix: Index, scn: dict) -> list[Violation]:
    out: list[Violation] = []
    cb = scn["combo"]
    exp = cb["expected"]
    reasons = []  # acceptable rejection kinds
    if cb["major"] > 2:
        reasons.append("version")
    names = []
    if cb["transport"] == "noise" and cb["noise_name"] is not None:
        names.append(cb["noise_name"])
    names.append(cb["api_name"])
    bad_names = [n for n in names if exp is not None and n != "" and n != exp]
    empty_names = [n for n in names if exp is not None and n == ""]
    if bad_names:
        reasons.append("name")
    if cb["login"] and cb["bad_pw"]:
        reasons.append("auth")
    # the connect outcome: last phase op of the main actor
    phase_ops = [op for op in ix.ops if op.do in ("connect", "start", "finish") and op.actor == "a0"]
    if not phase_ops or any(op.s1 is None for op in phase_ops):
        return out
    success = all(op.ok for op in phase_ops) and any(op.do in ("connect", "finish") for op in phase_ops)
    failed = next((op for op in phase_ops if not op.ok), None)
    conn = phase_ops[0].conn
    if success and reasons:
        out.append(Violation("accepted-invalid", "+".join(reasons), f"connect succeeded although the device must be rejected ({reasons}); combo={cb}"))
        return out
    if failed is not None:
        err = failed.err or {}
        mro = err.get("mro", [])
        cls = err.get("cls")
        if not err.get("api"):
            out.append(Violation("reject-unclassified", str(cls), f"rejected with non-API error {cls}: {err.get('text')}"))
        if not reasons and not empty_names and cb["order"] in ("normal", "split", "one_by_one") and cb["major"] == 1 and not cb.get("trailer"):
            out.append(Violation("rejected-valid", str(cls), f"a compatible, correctly named, authenticated device was rejected with {cls}: {err.get('text')}; combo={cb}"))
        if reasons and cb["order"] in ("normal", "split", "one_by_one"):
            ok = False
            if "name" in reasons and "BadNameAPIError" in mro and err.get("received_name") in bad_names:
                ok = True
            if "auth" in reasons and "InvalidAuthAPIError" in mro and len(reasons) == 1:
                ok = True  # (with a fatal hello as well, the hello's verdict comes first on the wire and wins)
            if "version" in reasons and "BadNameAPIError" not in mro and "InvalidAuthAPIError" not in mro and ("version" in (err.get("text") or "").lower() or "Version" in str(cls)):
                ok = True
            if empty_names and "BadNameAPIError" in mro and err.get("received_name") == "":
                ok = True
            if not ok:
                out.append(Violation("wrong-error", f"{'+'.join(reasons)}->{cls}", f"device must be rejected for {reasons} but the call raised {cls}: {err.get('text')} received_name={err.get('received_name')!r}; combo={cb}"))
        # cleanup obligations after a rejection
        if conn is not None:
            if ix.final_state(conn) != "CLOSED" and any(op.do in ("finish", "connect") for op in phase_ops if not op.ok):
                out.append(Violation("not-closed-after-reject", str(ix.final_state(conn)), f"{conn} ends in {ix.final_state(conn)} after the rejection"))
            if ix.on_stop.get(conn):
                out.append(Violation("stop-after-reject", "", f"on_stop invoked for {conn} although the session was never established"))
        if ix.audit is not None and ix.audit["open_socks"]:
            out.append(Violation("socket-open-after-reject", "", f"sockets {ix.audit['open_socks']} left open after the rejection"))
    return out


class C06(CheckBase):
    pid = "C06"
    level = "exploration"
    quick_cases = 6400
    thorough_cases = len(_MATRIX) * 2 * len(ORDERS) * 2

    def cases(self, rng: random.Random, tier: str, idx: int) -> Iterable[dict]:
        if tier == "thorough":
            # every (combination, transport, reply order) twice (chunking, latencies, trailers, name-setter seeded)
            combo = _MATRIX[idx % len(_MATRIX)]
            k = idx // len(_MATRIX)
            transport = "noise" if k % 2 else "plaintext"
            order = ORDERS[(k // 2) % len(ORDERS)]
        else:
            combo = _MATRIX[rng.randrange(len(_MATRIX))]
            transport = pick(rng, ["plaintext", "noise"])
            order = pick(rng, ORDERS, [4, 2, 1, 1, 2, 1])
        yield build(rng, combo, transport, order)

    def oracle(self, run: Any, scn: dict) -> list[Violation]:
        return handshake_oracle(Index(run.history), scn)

    def extra_evidence(self, stats: dict) -> dict:
        return {"matrix_size": len(_MATRIX), "matrix_note": "thorough enumerates every (major, minor, api name, noise name, expected name, login, verdict) combination x transport x reply order twice; chunking / latency / trailers are seeded per run"}


CHECK = C06()
