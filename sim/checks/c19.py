"""C19 - the client never wedges and refuses work unless a session is alive."""
from __future__ import annotations

import random
from typing import Any, Iterable

from ..runner import CheckBase, Violation
from .common import gen_cuts, gen_knobs, gen_transport, pick
from .hist import Index

PHASE = ("connect", "start", "finish")
WORK = ("device_info", "list_entities", "switch_command", "subscribe_states", "subscribe_logs", "send", "request", "sub", "ble.read", "ble.write", "cmd")
CMDS = [
    {"name": "climate_command", "kwargs": {"key": 1, "preset": "away"}},
    {"name": "climate_command", "kwargs": {"key": 1, "target_temperature": 21.5}},
    {"name": "cover_command", "kwargs": {"key": 1, "position": 0.5}},
    {"name": "cover_command", "kwargs": {"key": 1, "stop": True}},
    {"name": "light_command", "kwargs": {"key": 1, "state": True, "brightness": 0.5}},
    {"name": "fan_command", "kwargs": {"key": 1, "state": True}},
    {"name": "button_command", "kwargs": {"key": 1}},
    {"name": "lock_command", "kwargs": {"key": 1, "command": 1, "code": "1234"}},
    {"name": "text_command", "kwargs": {"key": 1, "state": "x"}},
    {"name": "number_command", "kwargs": {"key": 1, "state": 1.5}},
    {"name": "select_command", "kwargs": {"key": 1, "state": "a"}},
    {"name": "siren_command", "kwargs": {"key": 1, "state": True}},
    {"name": "media_player_command", "kwargs": {"key": 1, "volume": 0.5}},
    {"name": "valve_command", "kwargs": {"key": 1, "position": 0.5}},
    {"name": "alarm_control_panel_command", "kwargs": {"key": 1, "command": 0, "code": "1"}},
    {"name": "request_single_image", "kwargs": {}},
    {"name": "date_command", "kwargs": {"key": 1, "year": 2024, "month": 1, "day": 2}},
    {"name": "time_command", "kwargs": {"key": 1, "hour": 1, "minute": 2, "second": 3}},
    {"name": "datetime_command", "kwargs": {"key": 1, "epoch_seconds": 1700000000}},
    {"name": "update_command", "kwargs": {"key": 1, "command": 1}},
    {"name": "send_home_assistant_state", "kwargs": {"entity_id": "a.b", "attribute": None, "state": "on"}},
    {"name": "send_voice_assistant_audio", "kwargs": {"data": "00"}},
]


def wedge_oracle(ix: Index, scn: dict) -> list[Violation]:
    out: list[Violation] = []
    # replay the history, tracking the model
    conn_state: dict = {}
    latest: str | None = None
    inflight: dict = {}
    ops_by_start = {op.s0: op for op in ix.ops}
    ops_by_end = {op.s1: op for op in ix.ops if op.s1 is not None}
    writes_by_seq = sorted(seq for lst in ix.tr_writes.values() for seq, *_ in lst)
    for ev in ix.h:
        seq, turn, t, kind, d = ev
        if kind == "conn_new":
            latest = d["conn"]
        elif kind == "state":
            conn_state[d["conn"]] = d["new"]
        elif kind == "op_start":
            op = ops_by_start[seq]
            st = conn_state.get(latest) if latest else None
            # a connection that never left INITIALIZED with no phase call running on it is a dead object, not an attempt
            idle = not inflight and (latest is None or st in ("CLOSED", "INITIALIZED"))
            alive = st == "CONNECTED"
            # an attempt of another caller that is still running on a connection that has not been closed
            busy = [k for k, o in inflight.items() if o.conn is not None and conn_state.get(o.conn) not in (None, "CLOSED", "CONNECTED")]
            op_model = {"idle": idle, "alive": alive, "state": st, "busy": busy}
            MODEL[id(op)] = op_model
            if op.do in PHASE:
                inflight[op.s0] = op
        elif kind == "op_end":
            op = ops_by_end.get(seq)
            if op is None:
                continue
            inflight.pop(op.s0, None)
            if op.do == "disconnect" and op.ok:
                # "... after disconnect() was called at any stage": whatever phase call was in flight when a disconnect()
                # returned is over as far as the client is concerned (it may not have resumed yet to find that out)
                for k in [k for k, o in inflight.items() if conn_state.get(o.conn) in (None, "CLOSED")]:
                    inflight.pop(k, None)
            m = MODEL.pop(id(op), None)
            if m is None:
                continue
            err = op.err or {}
            already = (not op.ok) and "already connected" in (err.get("text") or "").lower()
            if op.do in ("connect", "start"):
                if m["idle"] and already:
                    out.append(Violation("wedged", op.do, f"{op.actor}[{op.i}] {op.do}() refused with {err.get('text')!r} although no attempt was in progress and no session alive (latest connection state: {m['state']})"))
                if m["alive"] and not already:
                    out.append(Violation("accepted-while-alive", op.do, f"{op.actor}[{op.i}] {op.do}() was not refused although a session was alive"))
                elif m["busy"] and not already:
                    out.append(Violation("accepted-while-attempt-in-progress", op.do, f"{op.actor}[{op.i}] {op.do}() was not refused although the attempt {m['busy'][0]} of another caller was still in progress (its connection was {m['state']})"))
            elif op.do == "unsub":
                # an unsubscribe handle of an earlier session is no request: it need not raise, but it must not write to a
                # connection that carries no authenticated session (a newer attempt still in its hello/login phase)
                if not m["alive"] and any(op.s0 < s < op.s1 for s in writes_by_seq) and ix.seq_turn[op.s0] == ix.seq_turn[op.s1]:
                    out.append(Violation("unsub-wrote-without-session", str(m["state"]), f"{op.actor}[{op.i}] unsubscribe handle wrote to the transport while no authenticated session was alive (connection state {m['state']})"))
                elif not op.ok and not (op.err or {}).get("api") and not op.cancelled:
                    out.append(Violation("work-error-class", f"unsub:{(op.err or {}).get('cls')}", f"{op.actor}[{op.i}] unsubscribe handle raised {(op.err or {}).get('cls')}: {(op.err or {}).get('text')}"))
            elif op.do in WORK:
                if not m["alive"]:
                    if op.ok:
                        out.append(Violation("work-accepted-without-session", op.do, f"{op.actor}[{op.i}] {op.do} succeeded while no authenticated session was alive (state {m['state']})"))
                    elif not err.get("api") and not op.cancelled:
                        out.append(Violation("work-error-class", f"{op.do}:{err.get('cls')}", f"{op.actor}[{op.i}] {op.do} without a session raised {err.get('cls')}: {err.get('text')}"))
                    if any(op.s0 < s < op.s1 for s in writes_by_seq) and ix.seq_turn[op.s0] == ix.seq_turn[op.s1]:
                        out.append(Violation("work-wrote-without-session", op.do, f"{op.actor}[{op.i}] {op.do} wrote to the transport while no authenticated session was alive"))
    return out


MODEL: dict = {}


def gen_c19(rng: random.Random) -> dict:
    client: dict = {"addresses": ["10.0.0.5"], "keepalive": pick(rng, [20.0, 2.0])}
    device: dict = {}
    gen_transport(rng, client, device, noise_p=0.25)
    if rng.random() < 0.2:
        device["invalid_password"] = True
    steps: list[dict] = []
    tags: list[str] = []
    no_cb = rng.random() < 0.2
    n = rng.randint(3, 12)
    for _ in range(n):
        r = rng.random()
        if r < 0.22:
            steps.append({"do": "connect", "login": rng.random() < 0.5})
        elif r < 0.36:
            steps.append({"do": "start"})
        if r < 0.36 and no_cb:
            steps[-1]["no_on_stop"] = True  # the application passes no stop callback (the default)
        elif r < 0.48:
            steps.append({"do": "finish", "login": rng.random() < 0.5})
        elif r < 0.64:
            steps.append({"do": "disconnect", "force": rng.random() < 0.4})
        elif r < 0.74:
            steps.append({"do": "sleep", "d": pick(rng, [0.0, 0.01, 0.5, 6.0])})
        elif r < 0.8 and rng.random() < 0.5:
            # subscriptions with an unsubscribe handle; the handles are used later, often after their session has gone
            tags.append(f"t{len(tags)}")
            steps.append({"do": "sub", "kind": pick(rng, ["ble_adv", "ble_raw", "voice", "ble_free"]), "tag": tags[-1]})
        elif r < 0.84 and tags:
            steps.append({"do": "unsub", "tag": tags.pop(rng.randrange(len(tags)))})
        else:
            if rng.random() < 0.4:
                c = pick(rng, CMDS)
                steps.append({"do": "cmd", "name": c["name"], "kwargs": dict(c["kwargs"])})
            else:
                steps.append(pick(rng, [{"do": "device_info"}, {"do": "switch_command", "key": 1, "state": True}, {"do": "subscribe_states"}, {"do": "list_entities"}, {"do": "send", "msgs": [["CameraImageRequest", {"single": True}]]}]))
    steps.append({"do": "sleep", "d": 1.0})
    steps.append({"do": "start"})  # the final probe: must never be refused if idle
    steps.append({"do": "disconnect", "force": True})
    plans = [{"outcome": pick(rng, ["ok", "ok", "ok", "refused", "unreachable"]), "latency": pick(rng, [0.0, 0.001, 0.05])} for _ in range(8)]
    events = []
    for _ in range(rng.randint(0, 4)):
        cause = pick(rng, ["fin", "rst", "dev_disconnect", "garbage", "force", "closer"])
        trig = pick(rng, [{"t": rng.random() * 3.0}, {"on": "state", "match": {"new": pick(rng, ["SOCKET_OPENED", "HANDSHAKE_COMPLETE", "CONNECTED"])}, "nth": rng.randint(1, 2), "delay": pick(rng, [0.0, 0.001, 0.1])}])
        if cause in ("fin", "rst"):
            events.append({"at": trig, "do": "fault", "kind": cause, "latency": 0.0})
        elif cause == "dev_disconnect":
            events.append({"at": trig, "do": "dev", "act": {"msgs": [["DisconnectRequest", {}]], "latency": 0.0}})
        elif cause == "garbage":
            events.append({"at": trig, "do": "dev", "act": {"raw_hex": "ffffff" if "noise_psk" not in client else "0300aa", "latency": 0.0}})
        elif cause == "force":
            events.append({"at": trig, "do": "poke", "what": "force_disconnect", "phase": pick(rng, ["pre", "post"])})
        else:
            events.append({"at": trig, "do": "start_actor", "actor": "closer", "phase": pick(rng, ["pre", "post"])})
        if cause in ("force", "closer") and rng.random() < 0.4:
            # another caller starts a new attempt right behind that close, before the attempt it ended has unwound
            events.append({"at": dict(trig), "do": "start_actor", "actor": "second", "phase": "post"})
    if rng.random() < 0.2:
        # the caller gives up on a graceful disconnect that waits for the device (wait_for / cancel): the session it
        # could not end is still alive and must stay known to the client
        device.setdefault("replies", {})["DisconnectRequest"] = pick(rng, [["silent"], [{"msgs": [["DisconnectResponse", {}]], "delay": pick(rng, [0.5, 3.0])}]])
        for st in steps:
            st["stop_on_cancel"] = False
        for _ in range(rng.randint(1, 2)):
            events.append({"at": {"on": "op_start", "match": {"actor": "a0", "do": "disconnect"}, "nth": rng.randint(1, 2), "delay": pick(rng, [0.0, 0.01, 0.2])}, "do": "poke", "what": "cancel", "target": "a0", "phase": pick(rng, ["pre", "post"])})
    if rng.random() < 0.15:
        # for a while every freshly connected socket fails an OS call of the connect phase (peer resets right behind the accept)
        t_on = rng.random() * 2.0
        events.append({"at": {"t": t_on}, "do": "fault", "kind": "knob", "name": "sock_fail", "value": pick(rng, ["nodelay", "getpeername"])})
        events.append({"at": {"t": t_on + pick(rng, [0.01, 0.5, 2.0])}, "do": "fault", "kind": "knob", "name": "sock_fail", "value": None})
    worker_steps: list[dict] = []
    if rng.random() < 0.25:
        # another part of the application keeps issuing work while a connect attempt of the same client is between its
        # stages (socket open, frame layer ready, hello/login outstanding): slow hello/login answers open those windows
        slow = pick(rng, [0.3, 2.0])
        device.setdefault("replies", {})[pick(rng, ["HelloRequest", "ConnectRequest"])] = [pick(rng, ["silent", {"default": True, "delay": slow}]), {"default": True, "delay": slow}]
        for _ in range(rng.randint(1, 4)):
            c = pick(rng, CMDS)
            worker_steps.append(pick(rng, [{"do": "cmd", "name": c["name"], "kwargs": dict(c["kwargs"])}, {"do": "cmd", "name": "send_voice_assistant_audio", "kwargs": {"data": "0102"}}, {"do": "switch_command", "key": 1, "state": True}, {"do": "device_info"}, {"do": "subscribe_states"}]))
            if tags and rng.random() < 0.5:
                worker_steps.append({"do": "unsub", "tag": tags.pop(rng.randrange(len(tags)))})
            worker_steps.append({"do": "sleep", "d": pick(rng, [0.0, 0.01, 0.2])})
        for _ in range(rng.randint(1, 3)):
            events.append({"at": {"on": "state", "match": {"new": pick(rng, ["SOCKET_OPENED", "HANDSHAKE_COMPLETE", "HANDSHAKE_COMPLETE"])}, "nth": rng.randint(1, 3), "delay": pick(rng, [0.0, 0.001, 0.05, 0.25])}, "do": "start_actor", "actor": "worker", "phase": pick(rng, ["pre", "post"])})
    actors = [{"id": "a0", "at": {"t": 0.0}, "steps": steps}, {"id": "worker", "at": "manual", "steps": worker_steps}, {"id": "closer", "at": "manual", "steps": [{"do": "disconnect"}]}, {"id": "second", "at": "manual", "steps": [{"do": pick(rng, ["start", "connect"]), "login": False}, {"do": "sleep", "d": 0.5}, {"do": pick(rng, ["start", "device_info"])}]}]
    extra: dict = {}
    if rng.random() < 0.25:
        # the application reconnects from inside its stop callback, at once or after yielding to the loop
        extra["on_stop_do"] = {"do": pick(rng, ["start", "connect"]), "yields": pick(rng, [0, 0, 1, 2]), "max": pick(rng, [1, 2]), "login": rng.random() < 0.5}
    return {
        **extra,
        "family": "client-history",
        "knobs": gen_knobs(rng),
        "client": client,
        "device": device,
        "net": {"cuts": gen_cuts(rng), "c2d_latency": pick(rng, [0.0, 0.001]), "d2c_latency": [pick(rng, [0.0, 0.001])], "connect": {"10.0.0.5": plans}},
        "actors": actors,
        "events": events,
        "end": 2000.0,
    }


def gen_stale_handle(rng: random.Random) -> dict:
    """Session 1 with a subscription that hands out an unsubscribe handle; the session ends; the handle is used while the next
    attempt of the same client is at one of its stages (socket open, frame layer ready with hello/login outstanding, connected)."""
    client: dict = {"addresses": ["10.0.0.5"], "keepalive": 20.0}
    device: dict = {}
    gen_transport(rng, client, device, noise_p=0.25)
    kind = pick(rng, ["ble_adv", "ble_raw", "voice", "ble_adv", "ble_raw"])
    login = rng.random() < 0.5
    slow = pick(rng, [0.5, 2.0])
    # first session answered at once, the second one slowly (or never)
    device["replies"] = {("ConnectRequest" if login else "HelloRequest"): ["default", pick(rng, ["silent", {"default": True, "delay": slow}])]}
    ender = pick(rng, [[{"do": "disconnect", "force": rng.random() < 0.5}], [{"do": "sleep", "d": 1.0}]])
    steps = [{"do": "connect", "login": login}, {"do": "sub", "kind": kind, "tag": "h"}] + ender + [{"do": "sleep", "d": 0.2}, {"do": "connect", "login": login}, {"do": "sleep", "d": 1.0}]
    events: list = []
    if ender[0]["do"] == "sleep":
        events.append({"at": {"on": "op_end", "match": {"actor": "a0", "do": "sub"}, "delay": 0.3}, "do": "fault", "kind": pick(rng, ["fin", "rst"]), "latency": 0.0})
    events.append({"at": {"on": "state", "match": {"new": pick(rng, ["SOCKET_OPENED", "HANDSHAKE_COMPLETE", "HANDSHAKE_COMPLETE", "HANDSHAKE_COMPLETE"])}, "nth": 2, "delay": pick(rng, [0.0, 0.001, 0.05, 0.3])}, "do": "start_actor", "actor": "worker", "phase": pick(rng, ["pre", "post"])})
    actors = [{"id": "a0", "at": {"t": 0.0}, "steps": steps}, {"id": "worker", "at": "manual", "steps": [{"do": "unsub", "tag": "h"}]}]
    return {"family": "client-history", "kind": "stale-handle", "knobs": gen_knobs(rng), "client": client, "device": device, "net": {"cuts": gen_cuts(rng), "c2d_latency": pick(rng, [0.0, 0.001]), "d2c_latency": [pick(rng, [0.0, 0.001])], "connect": {"10.0.0.5": [{"outcome": "ok", "latency": pick(rng, [0.0, 0.001, 0.05])}]}}, "actors": actors, "events": events, "end": 200.0}


def gen_disconnect_behind_fault(rng: random.Random) -> list[dict]:
    """A fault closes the connection while a connect phase is waiting (hello outstanding); another part of the application
    calls disconnect() and then start_connection() - in the same turn as the fault, one or two turns later, before or after
    the failing phase has resumed. disconnect() was called: the new attempt is accepted."""
    from ..engine import run_scenario

    client: dict = {"addresses": ["10.0.0.5"], "keepalive": 20.0}
    device: dict = {}
    gen_transport(rng, client, device, noise_p=0.25)
    device["replies"] = {"HelloRequest": ["silent", "default"]}
    force = rng.random() < 0.5
    base = {"family": "client-history", "kind": "disconnect-behind-fault", "knobs": gen_knobs(rng), "client": client, "device": device,
            "net": {"cuts": {"mode": "coalesce"}, "c2d_latency": 0.001, "d2c_latency": [0.001], "connect": {"10.0.0.5": [{"outcome": "ok", "latency": 0.001}]}},
            "actors": [{"id": "a0", "at": {"t": 0.0}, "steps": [{"do": "connect", "login": False}]},
                       {"id": "other", "at": "manual", "steps": [{"do": "disconnect", "force": force}, {"do": "start"}, {"do": "sleep", "d": 0.5}, {"do": "disconnect", "force": True}]}],
            "events": [{"at": {"t": 1.0}, "do": "fault", "kind": pick(rng, ["fin", "rst", "eio"]), "latency": 0.0}], "end": 100.0}
    probe = run_scenario(base)
    t_fault = next((ev[1] for ev in probe.history if ev[3] in ("recv_eof", "recv_err") ), None)
    if t_fault is None:
        return [base]
    out = []
    import copy

    for n in range(t_fault - 1, t_fault + 4):
        for phase in ("pre", "post"):
            v = copy.deepcopy(base)
            v["events"].append({"at": {"turn": n}, "do": "start_actor", "actor": "other", "phase": phase})
            out.append(v)
    return out


class C19(CheckBase):
    pid = "C19"
    level = "exploration"
    quick_cases = 12000
    thorough_cases = 120000

    def cases(self, rng: random.Random, tier: str, idx: int) -> Iterable[dict]:
        if idx % 10 == 7:
            yield gen_stale_handle(rng)
        elif idx % 50 == 3:
            yield from gen_disconnect_behind_fault(rng)
        else:
            yield gen_c19(rng)

    def oracle(self, run: Any, scn: dict) -> list[Violation]:
        MODEL.clear()
        return wedge_oracle(Index(run.history), scn)

    def note(self, run: Any, scn: dict, notes: Any) -> None:
        ix = Index(run.history)
        notes["sessions_established"] += len(ix.connected_seq)
        notes["connection_objects"] += len(ix.conns)
        for op in ix.ops:
            if op.do in ("connect", "start") and op.s1 is not None:
                notes["start_calls"] += 1
                if not op.ok and "already connected" in ((op.err or {}).get("text") or "").lower():
                    notes["start_refused_already_connected"] += 1


CHECK = C19()
