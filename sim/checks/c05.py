"""C05 - connection state only moves forward; closed is final; one connect per object."""
from __future__ import annotations

import copy
import random
from typing import Any, Iterable

from ..runner import CheckBase, Violation
from .common import make_rejecting, CAUSES, STATE_CHAIN, gen_session, pick, with_cause

PHASE_ANCHORS = [
    {"on": "tcp_established"},
    {"on": "d2c_frame_avail", "match": {"name": "HelloResponse"}},
    {"on": "d2c_frame_avail", "match": {"name": "ConnectResponse"}},
    {"on": "d2c_frame_avail", "match": {"name": "#noise_handshake"}},
    {"on": "d2c_frame_avail", "match": {"name": "#noise_hello"}},
    {"on": "state", "match": {"new": "SOCKET_OPENED"}},
    {"on": "state", "match": {"new": "HANDSHAKE_COMPLETE"}},
    {"on": "state", "match": {"new": "CONNECTED"}},
    {"on": "d2c_frame_avail", "match": {"name": "DisconnectResponse"}},
]


def transitions_oracle(history: list, pid: str = "C05") -> list[Violation]:
    out: list[Violation] = []
    state: dict = {}
    closed_seen: dict = {}
    pending_fatal: dict = {}
    for ev in history:
        kind, d = ev[3], ev[4]
        # a fatal error reported to the connection takes effect at once: the connection is CLOSED before the loop moves on
        for c0, (turn0, what) in list(pending_fatal.items()):
            if ev[1] > turn0:
                del pending_fatal[c0]
                if state.get(c0) != "CLOSED":
                    out.append(Violation("fatal-error-not-closing", str(state.get(c0)), f"{c0}: fatal error {what} was reported at turn {turn0} but the connection is still {state.get(c0)} afterwards"))
        if kind == "fatal" and d.get("conn") in state:
            if state.get(d["conn"]) != "CLOSED":
                pending_fatal.setdefault(d["conn"], (ev[1], d["err"]["cls"]))
        if kind == "state":
            c, old, new = d["conn"], d["old"], d["new"]
            if old is None:
                if new != "INITIALIZED":
                    out.append(Violation("initial-state", new, f"{c} starts in {new}"))
            elif old == "CLOSED":
                if new != "CLOSED":
                    out.append(Violation("closed-final", f"CLOSED->{new}", f"{c}: transition CLOSED->{new} at turn {ev[1]} t={ev[2]:.6f}"))
            elif new != "CLOSED":
                if old not in STATE_CHAIN or STATE_CHAIN.index(old) + 1 >= len(STATE_CHAIN) or STATE_CHAIN[STATE_CHAIN.index(old) + 1] != new:
                    out.append(Violation("forward-only", f"{old}->{new}", f"{c}: transition {old}->{new} at turn {ev[1]}"))
            state[c] = new
            if new == "CLOSED":
                closed_seen.setdefault(c, ev[0])
        elif kind == "is_connected":
            if d["value"] != (d["state"] == "CONNECTED"):
                out.append(Violation("is-connected-flag", f"{d['state']}:{d['value']}", f"{d['conn']}: is_connected={d['value']} in state {d['state']}"))
        elif kind == "on_stop" and "is_connected" in d:
            # what the application sees from inside its stop callback
            if d["is_connected"] != (d["state"] == "CONNECTED"):
                out.append(Violation("is-connected-flag", f"in-stop-callback:{d['state']}:{d['is_connected']}", f"{d['conn']}: the stop callback runs with is_connected={d['is_connected']} in state {d['state']}"))
        elif kind == "audit":
            for cd in d.get("conns", []):
                if cd.get("is_connected") != (cd.get("state") == "CONNECTED"):
                    out.append(Violation("is-connected-flag", f"end:{cd.get('state')}:{cd.get('is_connected')}", f"{cd.get('conn')}: at the end of the run is_connected={cd.get('is_connected')} in state {cd.get('state')}"))
        elif kind == "flag_mismatch":
            out.append(Violation("is-connected-flag", f"sample:{d['state']}:{d['value']}", f"{d['conn']}: sampled is_connected={d['value']} in state {d['state']}"))
    return out


def _refusal(d: dict) -> bool:
    """The call was refused by a precondition check (wrong state / already connected) and touched nothing."""
    err = d.get("err") or {}
    txt = (err.get("text") or "").lower()
    return (err.get("cls") == "RuntimeError" and ("only be used once" in txt or "socket_opened state" in txt)) or "already connected" in txt or txt.startswith("harness:")


def phase_return_oracle(history: list) -> list[Violation]:
    """A phase call returns normally only if no CLOSED transition of its connection preceded the return."""
    out: list[Violation] = []
    open_ops: dict = {}  # actor -> dict
    conn_state: dict = {}
    closed: set = set()
    last_conn_of_client: list = [None]
    for ev in history:
        kind, d = ev[3], ev[4]
        if kind == "conn_new":
            last_conn_of_client[0] = d["conn"]
            for op in open_ops.values():
                if op["do"] in ("connect", "start"):
                    op["conn"] = d["conn"]
        elif kind == "state":
            conn_state[d["conn"]] = d["new"]
            if d["new"] == "CLOSED":
                closed.add(d["conn"])
        elif kind == "op_start" and d["do"] in ("connect", "start", "finish", "conn.start", "conn.finish"):
            op = {"do": d["do"], "conn": None, "state_before": None}
            if d["do"] == "finish":
                op["conn"] = last_conn_of_client[0]
                op["state_at_start"] = conn_state.get(last_conn_of_client[0])
            open_ops[d["actor"]] = op
        elif kind == "op_end" and d["do"] in ("connect", "start", "finish") and d["actor"] in open_ops:
            op = open_ops.pop(d["actor"])
            c = op["conn"]
            if d.get("ok") and c is not None:
                want = "SOCKET_OPENED" if d["do"] == "start" else "CONNECTED"
                if c in closed:
                    out.append(Violation("phase-return-after-close", f"{d['do']}", f"{d['do']}() returned normally although {c} had already been closed (state now {conn_state.get(c)})"))
                elif conn_state.get(c) != want:
                    out.append(Violation("phase-return-state", f"{d['do']}:{conn_state.get(c)}", f"{d['do']}() returned normally with {c} in state {conn_state.get(c)}"))
            elif not d.get("ok") and c is not None and not _refusal(d) and conn_state.get(c) != "CLOSED" and not (d["do"] == "finish" and op.get("state_at_start") == "CONNECTED"):
                # one connect attempt per object: an attempt that failed has used the object up
                out.append(Violation("failed-phase-not-closed", f"{d['do']}:{conn_state.get(c)}", f"{d['do']}() failed with {(d.get('err') or {}).get('cls')} but left {c} in state {conn_state.get(c)} (a second attempt on the object would be accepted)"))
    return out


def disconnect_final_oracle(history: list) -> list[Violation]:
    """A disconnect call that returned normally has taken effect: the connection it was called on is closed by then, at
    whatever stage it was (between the two phases included) - only then can "never undone" mean anything."""
    from .hist import Index

    out: list[Violation] = []
    ix = Index(history)
    for c, calls in ix.disc_calls.items():
        for sq, force, st in calls:
            op = next((o for o in ix.ops if o.do in ("disconnect", "conn.disconnect", "force_disconnect") and o.s0 < sq and (o.s1 is None or sq < o.s1)), None)
            if op is None or op.s1 is None or not op.ok or op.cancelled:
                continue
            cs = ix.closed_seq.get(c)
            if cs is None or cs > op.s1:
                out.append(Violation("disconnect-returned-not-closed", str(st), f"{op.actor}[{op.i}] {op.do}() on {c} (state {st} at the call) returned normally but the connection " + ("was never closed" if cs is None else "closed only later")))
                return out
    return out


def reuse_oracle(history: list) -> list[Violation]:
    """conn.start outside INITIALIZED / conn.finish outside SOCKET_OPENED must raise and change nothing."""
    out: list[Violation] = []
    conn_state: dict = {}
    k2c: dict = {}
    open_ops: dict = {}
    for ev in history:
        kind, d = ev[3], ev[4]
        if kind == "state":
            conn_state[d["conn"]] = d["new"]
            for op in open_ops.values():
                if op["illegal"] and op["conn"] == d["conn"] and d["new"] != "CLOSED":
                    out.append(Violation("reuse-changes-state", f"{op['do']}:{d['old']}->{d['new']}", f"{op['do']} issued in state {op['before']} moved {d['conn']} {d['old']}->{d['new']}"))
        elif kind in ("sock_new", "sock_connect", "getaddrinfo") and open_ops:
            # one attempt per object: a refused start call must not resolve or open anything of its own
            starts = [o for o in open_ops.values() if o["do"] == "conn.start"]
            if starts and all(o["illegal"] for o in starts):
                out.append(Violation("reuse-attempted", f"{kind}:{starts[0]['before']}", f"conn.start issued in state {starts[0]['before']} went on to {kind} (a second connect attempt on a used object)"))
        elif kind == "op_end" and d["do"] == "conn.new" and d.get("ok"):
            k2c["k0"] = d["value"]
        elif kind == "op_start" and d["do"] in ("conn.start", "conn.finish"):
            c = k2c.get(d["args"].get("k", "k0"))
            before = conn_state.get(c)
            legal = before == ("INITIALIZED" if d["do"] == "conn.start" else "SOCKET_OPENED")
            # a phase call of the same kind still in flight on this object makes this one illegal too
            if any(o["do"] == d["do"] and o["conn"] == c for o in open_ops.values()):
                legal = False
                before = f"{before}+inflight"
            open_ops[d["actor"], d["i"]] = {"do": d["do"], "conn": c, "before": before, "illegal": not legal}
        elif kind == "op_end" and d["do"] in ("conn.start", "conn.finish"):
            op = open_ops.pop((d["actor"], d["i"]), None)
            if op is None:
                continue
            if op["illegal"] and d.get("ok"):
                out.append(Violation("reuse-accepted", f"{op['do']}:{op['before']}", f"{op['do']} in state {op['before']} returned normally"))
            if not op["illegal"] and not d.get("ok") and conn_state.get(op["conn"]) != "CLOSED":
                out.append(Violation("failed-phase-not-closed", f"{op['do']}:{conn_state.get(op['conn'])}", f"{op['do']} failed with {(d.get('err') or {}).get('cls')} but left {op['conn']} in state {conn_state.get(op['conn'])}"))
            if not op["illegal"] and d.get("ok"):
                c = op["conn"]
                want = "SOCKET_OPENED" if op["do"] == "conn.start" else "CONNECTED"
                if conn_state.get(c) != want:
                    out.append(Violation("phase-return-state", f"{op['do']}:{conn_state.get(c)}", f"{op['do']} returned normally with {c} in state {conn_state.get(c)}"))
    return out


class C05(CheckBase):
    pid = "C05"
    level = "exploration"
    quick_cases = 960
    thorough_cases = 9600

    def cases(self, rng: random.Random, tier: str, idx: int) -> Iterable[dict]:
        r = idx % 8
        if r in (0, 1, 2, 3):
            # anchored coincidences: a close cause in / next to the turn of a phase-completing event
            base = gen_session(rng)
            n = rng.randint(1, 2)
            scn = base
            for _ in range(n):
                trig = copy.deepcopy(pick(rng, PHASE_ANCHORS))
                if rng.random() < 0.35:
                    trig["turns"] = pick(rng, [1, 1, 2])
                scn = with_cause(scn, pick(rng, CAUSES), trig, pick(rng, ["pre", "post"]), rng)
            yield scn
        elif r in (4, 5):
            # crash-point sweep over one baseline, a seed-chosen subset of causes
            from ..engine import run_scenario

            base = gen_session(rng, long_p=0.1)
            if idx % 3 == 0:
                make_rejecting(base, rng)  # the attempt is closed by a verdict of the library itself
            yield base
            T = run_scenario(base).turns
            causes = rng.sample(CAUSES, 3 if tier == "quick" else 5)
            stride = 1 if T <= 40 else 2
            for n in range(1, T + 1, stride):
                for cause in causes:
                    for phase in (["pre", "post"] if cause in ("force_disconnect", "disconnect", "cancel") else ["pre"]):
                        yield with_cause(base, cause, {"turn": n}, phase, rng)
        elif r == 6:
            # one connect per object: raw connection objects, repeated phase calls
            yield self._reuse_case(rng)
        else:
            scn = gen_session(rng)
            r2 = rng.random()
            if r2 < 0.3:
                # an OS call on the freshly connected socket fails (peer reset right behind the accept)
                scn["knobs"]["sock_fail"] = pick(rng, ["nodelay", "getpeername"])
                scn["actors"][0]["steps"] += [{"do": "connect", "login": False}]
            elif r2 < 0.6:
                # a hung hello exchange, disconnect() whose 5 s grace for the running connect expires, then a fatal
                # error while it waits for the DisconnectResponse: the error must close the connection at once
                scn["device"]["replies"] = {"HelloRequest": ["silent"], "DisconnectRequest": ["silent"]}
                scn["actors"] = [{"id": "a0", "at": {"t": 0.0}, "steps": [{"do": "connect", "login": rng.random() < 0.5}]}, {"id": "closer", "at": {"t": pick(rng, [0.5, 1.0])}, "steps": [{"do": "disconnect"}]}]
                scn["events"] = []
                t_f = pick(rng, [4.0, 6.5, 8.0, 12.0])
                cause = pick(rng, ["fin", "rst", "garbage", "eio", "late_hello+garbage"])
                if cause == "late_hello+garbage":
                    noise = bool(scn["client"].get("noise_psk"))
                    scn["events"].append({"at": {"t": t_f}, "do": "dev", "act": {"msgs": [["HelloResponse", {"api_version_major": 1, "api_version_minor": 10, "name": "simdev"}], ["ConnectResponse", {}], {"type": 10, "payload_hex": "0aff01", "name": "#bad_payload"}], "latency": 0.0}})
                else:
                    scn = with_cause(scn, cause, {"t": t_f}, "pre", rng)
            yield scn

    def _reuse_case(self, rng: random.Random) -> dict:
        base = gen_session(rng, noise_p=0.2, max_addrs=1)
        steps: list[dict] = [{"do": "conn.new"}]
        seq = pick(
            rng,
            [
                ["conn.start", "conn.start"],
                ["conn.start", "conn.finish", "conn.start"],
                ["conn.start", "conn.finish", "conn.finish"],
                ["conn.finish"],
                ["conn.start", "conn.finish", "conn.disconnect", "conn.start"],
                ["conn.start", "conn.finish", "conn.disconnect", "conn.finish"],
                ["conn.start", "conn.force_disconnect", "conn.finish"],
                ["conn.start", "conn.force_disconnect", "conn.start"],
                ["conn.force_disconnect", "conn.start"],
            ],
        )
        for s in seq:
            st: dict = {"do": s}
            if s == "conn.finish":
                st["login"] = rng.random() < 0.5
            steps.append(st)
            if rng.random() < 0.3:
                steps.append({"do": "sleep", "d": pick(rng, [0.0, 0.01])})
        base["actors"] = [{"id": "a0", "at": {"t": 0.0}, "steps": steps}]
        base["events"] = []
        if rng.random() < 0.3:
            # a concurrent second start on the same object while the first is in flight
            r = rng.random()
            if r < 0.25:
                # ... while the first is still resolving the host name (before any socket exists)
                addr = base["client"]["addresses"][0]
                fam = 6 if ":" in addr else 4
                base["client"]["addresses"] = ["dev.example.com"]
                base["net"]["resolver"] = {"dev.example.com": {"result": [[fam, addr]], "latency": pick(rng, [0.01, 0.2, 1.0])}}
                base["actors"].append({"id": "a1", "at": {"on": "getaddrinfo", "turns": pick(rng, [0, 1, 2])}, "steps": [{"do": "conn.start"}]})
            elif r < 0.5:
                base["actors"].append({"id": "a1", "at": {"on": "sock_connect"}, "steps": [{"do": "conn.start"}]})
            else:
                base["actors"].append({"id": "a1", "at": {"on": "state", "match": {"new": "SOCKET_OPENED"}, "turns": pick(rng, [1, 2])}, "steps": [{"do": "conn.finish", "login": False}]})
        return base

    def oracle(self, run: Any, scn: dict) -> list[Violation]:
        h = run.history
        return transitions_oracle(h) + phase_return_oracle(h) + reuse_oracle(h) + disconnect_final_oracle(h)


CHECK = C05()
