from __future__ import annotations

import importlib
from typing import Any

_cache: dict = {}


def get_check(pid: str) -> Any:
    if pid not in _cache:
        mod = importlib.import_module(f"sim.checks.{pid.lower()}")
        _cache[pid] = mod.CHECK
    return _cache[pid]


ALL_IDS = ["C01", "C02", "C03", "C04", "C05", "C06", "C07", "C08", "C09", "C10", "C11", "C12", "C16", "C17", "C18", "C19", "C20"]
