from __future__ import annotations

import importlib
from typing import Any

_cache: dict = {}


def get_check(pid: str) -> Any:
    if pid not in _cache:
        mod = importlib.import_module(f"sim.checks.{pid.lower()}")
        _cache[pid] = mod.CHECK
    return _cache[pid]
