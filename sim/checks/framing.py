"""Oracles shared by the framing properties (C01, C03, C04)."""
from __future__ import annotations

from typing import Any

from ..runner import Violation
from .hist import Index


def delivered_equals_complete(ix: Index, only_kinds: tuple = ("msg",), pid: str = "C01", until_seq: float | None = None) -> list[Violation]:
    """After every delivery, process_packet calls == frames whose last byte has been delivered."""
    out: list[Violation] = []
    for cid, txs in ix.dev_tx.items():
        fd = ix.cid_fd.get(cid)
        if fd is None:
            continue
        conn = ix.fd_conn.get(fd) or next((c for c in ix.conns), None)
        frames = [(d["end"], d["type"], d["payload"]) for d in txs if d.get("kind") in only_kinds and not d.get("dropped")]
        pps = [(seq, mtype, data) for seq, mtype, data, state, turn, t in ix.pp.get(conn, [])] if conn else []
        recvs = ix.recvs.get(fd, [])
        # checkpoints: just before each recv (everything delivered so far has been processed) and at the end
        checkpoints = [(recvs[i + 1][0], recvs[i][1]) for i in range(len(recvs) - 1)]
        if recvs:
            checkpoints.append((float("inf"), recvs[-1][1]))
        for seq_limit, total in checkpoints:
            if until_seq is not None and seq_limit >= until_seq:
                break  # only while the connection is healthy (the caller's cut-off: first fatal error / close)
            want = [(t, p) for end, t, p in frames if end <= total]
            got = [(t, d) for s, t, d in pps if s < seq_limit]
            if got != want:
                # classify
                if len(got) > len(want):
                    rule, disc = ("early-or-extra", "more")
                elif len(got) < len(want):
                    rule, disc = ("lost-or-late", "fewer")
                else:
                    rule, disc = ("altered", "content")
                k = next((i for i, (a, b) in enumerate(zip(got, want)) if a != b), min(len(got), len(want)))
                out.append(Violation(rule, disc, f"after {total} delivered byte(s): {len(got)} packet(s) handed over, {len(want)} frame(s) complete; first difference at packet #{k}"))
                break
    return out
