"""C20 - address resolution order and fallbacks; zeroconf instances are owned correctly."""
from __future__ import annotations

import ipaddress
import random
import socket
from typing import Any, Iterable

from ..runner import CheckBase, Violation
from .common import gen_knobs, pick
from .hist import Index

LITERALS = ["10.0.0.5", "192.168.1.77", "fd00::5", "fe80::1%3", "::1", "2001:db8::2%12"]
LOCALS = ["mydev", "mydev.local", "mydev.local.", "other", "other.local", "patio.local", "pool", "alexa.local.", "attic", "hall-panel.local", "local", "coal.local", "3dprinter", "3dprinter.local", "1st-floor.local.", "10lamp"]  # (labels ending in the letters of "local" or a dot, and names starting with a digit included)
FQDNS = ["dev.example.com", "esp.lan", "node.example.org.", "kitchen.intralocal", "node.office-local", "dev.example.nonlocal."]
# names a resolver library refuses: mDNS instance labels longer than 63 bytes or with control characters (zeroconf raises in the
# request constructor), host names with an empty or > 63 byte label (the idna codec in socket.getaddrinfo raises UnicodeError)
ODD_LOCALS = ["x" * 63 + ".local", "x" * 64 + ".local", "bad\x07name.local", "y" * 70]
ODD_FQDNS = ["x" * 64 + ".example.com", "a..b.example.com", "x" * 63 + ".example.com"]
V4 = ["10.1.0.1", "10.1.0.2", "10.1.0.3"]


def mdns_name_ok(name: str) -> bool:
    import zeroconf

    try:
        zeroconf.service_type_name(f"{name}._esphomelib._tcp.local.", strict=False)
    except zeroconf.BadTypeInNameException:
        return False
    return True


def idna_ok(host: str) -> bool:
    try:
        host.encode("idna")
    except UnicodeError:
        return False
    return True
V6 = ["fd00::11", "fd00::12"]


def classify(host: str) -> str:
    if "." not in host and ":" not in host:
        return "local"
    if host.removesuffix(".").endswith(".local"):
        return "local"
    try:
        ipaddress.ip_address(host)
        return "literal"
    except ValueError:
        return "fqdn"


def expect(scn_net: dict, hosts: list[str], port: int, mdns_dead: bool = False) -> tuple[list | None, bool, list]:
    """(expected AddrInfo list or None if no result, open (OS resolver hard error somewhere), expected lookup trace)."""
    out: list = []
    trace: list = []
    open_ = False
    for h in hosts:
        k = classify(h)
        got: list = []
        if k == "literal":
            ip = ipaddress.ip_address(h)
            if ip.version == 6:
                scope = int(ip.scope_id) if ip.scope_id and ip.scope_id.isdigit() else 0
                got.append([int(socket.AF_INET6), str(ip).partition("%")[0], port, 0, scope])
            else:
                got.append([int(socket.AF_INET), str(ip), port, None, None])
            out += got
            continue
        if k == "local" and not mdns_dead and mdns_name_ok(h.partition(".")[0]):
            name = h.partition(".")[0]
            trace.append(("mdns", name))
            ent = scn_net.get("mdns", {}).get(name, {"outcome": "none"})
            if ent.get("outcome", "ok") in ("ok", "partial") and ent.get("latency", 0.01) <= 3.0:
                for a in ent.get("v6", []):
                    got.append([int(socket.AF_INET6), a, port, 0, 0])
                for a in ent.get("v4", []):
                    got.append([int(socket.AF_INET), a, port, None, None])
        if not got:
            trace.append(("os", h))
            ent = scn_net.get("resolver", {}).get(h, scn_net.get("resolver", {}).get("*", {"result": "error"}))
            res = ent.get("result", "error") if idna_ok(h) else "error"  # (a name the OS resolver cannot even encode)
            if res == "error":
                open_ = True
                return None, True, trace
            if isinstance(res, list):
                for fam, a, *rest in res:
                    if fam == 6:
                        got.append([int(socket.AF_INET6), a, port, 0, rest[0] if rest else 0])
                    elif fam == 4:
                        got.append([int(socket.AF_INET), a, port, None, None])
        out += got
    return (out if out else None), open_, trace


def resolver_oracle(ix: Index, scn: dict) -> list[Violation]:
    out: list[Violation] = []
    net = scn.get("net", {})
    hang = any(e.get("outcome") == "hang" for e in net.get("mdns", {}).values()) or any(e.get("result") == "hang" for e in net.get("resolver", {}).values())
    for op in ix.ops:
        if op.do != "resolve" or op.s1 is None:
            continue
        hosts = op.args["hosts"]
        port = op.args.get("port", 6053)
        create_failed = any(op.s0 < ev[0] < op.s1 and ev[3] == "zc_create_failed" for ev in ix.h)
        queried = any(op.s0 < ev[0] < op.s1 and ev[3] == "mdns_request" for ev in ix.h)
        if create_failed and queried:
            continue  # creation failed for one host and worked for another (knob flipped mid-operation): not modelled
        want, open_, trace = expect(net, hosts, port, mdns_dead=create_failed)
        # lookups made during the op
        made = []
        for ev in ix.h:
            if op.s0 < ev[0] < op.s1:
                if ev[3] == "mdns_request":
                    made.append(("mdns", ev[4]["host"]))
                elif ev[3] == "getaddrinfo":
                    made.append(("os", ev[4]["host"]))
        for kind, h in made:
            if classify(h) == "literal" or (kind == "mdns" and any(classify(x) == "literal" and x.partition(".")[0] == h for x in hosts)):
                out.append(Violation("literal-looked-up", kind, f"lookup {kind}({h}) for an IP literal"))
        interrupted = op.cancelled or (op.err or {}).get("cls") in ("TimeoutError", "CancelledError")
        if not interrupted and not hang:
            if made != trace[: len(made)] or (not open_ and made != trace):
                out.append(Violation("lookup-order", "", f"lookups made {made}, the decision tree says {trace} for hosts {hosts}"))
        if interrupted:
            continue
        if op.ok:
            if not op.value:
                out.append(Violation("empty-result", "", f"resolution of {hosts} returned an empty list instead of raising"))
            elif want is None and not open_:
                out.append(Violation("result-from-nothing", "", f"resolution of {hosts} returned {op.value} although nothing resolves"))
            elif want is not None and op.value != want:
                fam_w = [w[0] for w in want]
                fam_g = [g[0] for g in op.value]
                what = "order" if sorted(map(str, op.value)) == sorted(map(str, want)) else "content"
                out.append(Violation("wrong-result", what, f"resolution of {hosts}: got {op.value}, expected {want}"))
        else:
            err = op.err or {}
            if not err.get("api"):
                out.append(Violation("error-class", str(err.get("cls")), f"resolution of {hosts} raised {err.get('cls')}: {err.get('text')}"))
            elif want is not None and not open_:
                out.append(Violation("failed-resolvable", str(err.get("cls")), f"resolution of {hosts} raised {err.get('cls')}: {err.get('text')} although the expected result is {want}"))
    # the socket-level address of every TCP connect attempt: (address, port) for IPv4, (address, port, flowinfo 0, scope id) for
    # IPv6, with the scope id of the configured literal
    for ev in ix.h:
        if ev[3] == "sock_connect" and "sockaddr" in ev[4]:
            sa = ev[4]["sockaddr"]
            if ":" in str(sa[0]):
                want_scopes = {int(h.partition("%")[2]) if h.partition("%")[2].isdigit() else 0 for h in scn.get("client", {}).get("addresses", []) if classify(h) == "literal" and ":" in h and h.partition("%")[0] == sa[0]}
                if len(sa) != 4 or sa[2] != 0 or (want_scopes and sa[3] not in want_scopes):
                    out.append(Violation("connect-sockaddr", "", f"TCP connect to {sa}: want (address, port, 0, scope id in {sorted(want_scopes) or 'the resolved one'})"))
                    break
            elif len(sa) != 2:
                out.append(Violation("connect-sockaddr", "v4", f"TCP connect to {sa}: an IPv4 socket address has two fields"))
                break
    # an application-supplied instance is the one that is used, for every lookup: the library never creates one next to it
    if any(op.do == "zm.new" and op.ok and op.value for op in ix.ops) or scn.get("client", {}).get("zeroconf"):
        if not any(op.do == "zm.new" and op.ok and not op.value for op in ix.ops):
            for ev in ix.h:
                if ev[3] == "zc_new" and ev[4]["owner"] == "lib":
                    out.append(Violation("created-despite-supplied", "", f"the library created its own zeroconf instance {ev[4]['zc']} although the application had supplied one"))
                    break
    # ownership, over the whole history
    created: dict = {}
    closed: set = set()
    for ev in ix.h:
        if ev[3] == "zc_new":
            created[ev[4]["zc"]] = (ev[4]["owner"], ev[0])
        elif ev[3] == "azc_close_begin" and ev[4]["owner"] == "app":
            out.append(Violation("supplied-instance-closed", "", f"the application's zeroconf instance {ev[4]['zc']} was closed by the library"))
        elif ev[3] == "azc_close_end":
            closed.add(ev[4]["zc"])
    # library-created instances must be closed again once no longer needed: by the end of the run,
    # unless a manager explicitly asked for one (zm.get) and was never closed by the scenario
    explicit_get = [op for op in ix.ops if op.do == "zm.get" and op.ok]
    closes = [op for op in ix.ops if op.do == "zm.close" and op.s1 is not None]
    client_ops = any(op.do in ("start", "connect") for op in ix.ops)
    still_running = any(op.s1 is None and op.do in ("resolve", "connect", "start") for op in ix.ops)
    for zc, (owner, seq) in created.items():
        if owner != "lib" or zc in closed or still_running:
            continue
        held = any(g.value and g.value.get("zc") == zc and not any(c.s0 > g.s1 for c in closes) for g in explicit_get)
        if held:
            continue
        out.append(Violation("created-instance-left-open", "client" if client_ops else "resolve", f"zeroconf instance {zc} created by the library was never closed"))
    # ... and not before: an instance the library created and handed out (zm.get) stays open while its holder has not
    # asked the manager to close it - a lookup through the same manager in between must leave it alone
    for ev in ix.h:
        if ev[3] == "azc_close_begin" and ev[4]["owner"] == "lib":
            for g in explicit_get:
                if g.value and g.value.get("zc") == ev[4]["zc"] and g.s1 < ev[0] and not any(g.s1 < c.s0 < ev[0] for c in closes) and not any(c.s0 < ev[0] and (c.s1 is None or ev[0] < c.s1) for c in closes):
                    out.append(Violation("created-instance-closed-while-in-use", "", f"the library-created zeroconf instance {ev[4]['zc']} handed out by the manager was closed while still in use (no close was requested)"))
                    break
    # after zm.close the manager must be usable again and hold nothing stale
    for i, op in enumerate(ix.ops):
        if op.do == "zm.get" and op.ok and op.value and op.value.get("closed"):
            out.append(Violation("stale-instance", "", f"manager handed out the closed instance {op.value['zc']}"))
    for ev in ix.h:
        if ev[3] == "mdns_request" and ev[4]["zc_closed"]:
            out.append(Violation("stale-instance", "query", "an mDNS query was sent through a closed zeroconf instance"))
            break
    return out


def gen_net(rng: random.Random, hosts: list[str]) -> dict:
    net: dict = {"mdns": {}, "resolver": {}}
    for h in hosts:
        k = classify(h)
        if k == "local":
            name = h.partition(".")[0]
            o = pick(rng, ["ok", "ok", "ok", "none", "error", "hang", "partial"], [4, 4, 4, 3, 2, 1, 2])
            v4 = rng.sample(V4, rng.randint(0, 2))
            v6 = rng.sample(V6, rng.randint(0, 2))
            if o in ("ok", "partial") and not v4 and not v6:
                v4 = [V4[0]]
            net["mdns"][name] = {"outcome": o, "v4": v4, "v6": v6, "latency": pick(rng, [0.0, 0.01, 0.5, 2.999, 3.2])}
        if k in ("local", "fqdn"):
            r = pick(rng, ["list", "list", "empty", "error", "hang"], [5, 5, 2, 2, 1])
            if r == "list":
                # family 99: an address family the OS may return that is neither IPv4 nor IPv6 (skipped by the decision tree)
                res: Any = [[pick(rng, [4, 6, 4, 4, 6, 4, 99]), None] for _ in range(rng.randint(1, 3))]
                res = [[f, pick(rng, V6) if f == 6 else pick(rng, V4)] for f, _ in res]
                # link-local IPv6 answers come with the interface as scope id (nss-mdns, /etc/hosts, an FQDN on that link)
                res = [[6, pick(rng, ["fe80::1", "fe80::a:b"]), pick(rng, [2, 3, 12])] if f == 6 and rng.random() < 0.3 else [f, a] for f, a in res]
            else:
                res = r
            net["resolver"][h] = {"result": res, "latency": pick(rng, [0.0, 0.01, 1.0, 10.0])}
    return net


def gen_c20(rng: random.Random) -> dict:
    n = rng.randint(1, 4)
    hosts = [pick(rng, LITERALS + LOCALS + FQDNS) for _ in range(n)]
    if rng.random() < 0.12:
        hosts[rng.randrange(n)] = pick(rng, ODD_LOCALS + ODD_FQDNS)
    net = gen_net(rng, hosts)
    knobs = gen_knobs(rng)
    if rng.random() < 0.4:
        knobs["zc_close_delay"] = pick(rng, [0.1, 0.5, 2.0])
    steps: list[dict] = []
    sup = pick(rng, [None, None, "zeroconf", "async"])
    steps.append({"do": "zm.new", "supplied": sup})
    if rng.random() < 0.2:
        steps.append({"do": "zm.get"})
    st: dict = {"do": "resolve", "hosts": hosts, "port": pick(rng, [6053, 80])}
    hang = any(e.get("outcome") == "hang" for e in net["mdns"].values()) or any(e.get("result") == "hang" for e in net["resolver"].values())
    if rng.random() < 0.5 or hang:
        st["timeout"] = pick(rng, [30.0, 0.2, 1.0, 3.1, 5.0])
    steps.append(st)
    if rng.random() < 0.3:
        steps.append({"do": "resolve", "hosts": hosts[:1], "port": 6053})
    steps.append({"do": "zm.close"})
    events = []
    if rng.random() < 0.35:
        events.append({"at": pick(rng, [{"t": pick(rng, [0.0, 0.005, 0.05, 0.3, 0.6, 2.0, 3.05, 3.3])}, {"on": "azc_close_begin", "delay": pick(rng, [0.0, 0.05, 0.3])}, {"on": "mdns_request", "delay": pick(rng, [0.0, 0.005])}]), "do": "poke", "what": "cancel", "target": "a0", "phase": pick(rng, ["pre", "post"])})
    return {"family": "resolver", "knobs": knobs, "net": net, "actors": [{"id": "a0", "at": {"t": 0.0}, "steps": steps}], "events": events, "end": 500.0}


def gen_cancel_sweep(rng: random.Random) -> Iterable[dict]:
    from ..engine import run_scenario

    base = gen_c20(rng)
    base["events"] = []
    for st in base["actors"][0]["steps"]:
        if st["do"] == "resolve":
            st.pop("timeout", None)
    yield base
    T = run_scenario(base).turns
    for n in range(1, T + 1):
        for phase in ("pre", "post"):
            s = {**base, "events": [{"at": {"turn": n}, "do": "poke", "what": "cancel", "target": "a0", "phase": phase}]}
            yield s


def gen_manager_history(rng: random.Random) -> dict:
    sup = pick(rng, [None, "zeroconf", "async"])
    steps: list[dict] = [{"do": "zm.new", "supplied": sup}]
    events = []
    for _ in range(rng.randint(2, 8)):
        r = rng.random()
        if r < 0.35:
            steps.append({"do": "zm.get"})
        elif r < 0.55:
            steps.append({"do": "zm.close"})
        elif r < 0.75:
            steps.append({"do": "zm.set", "which": pick(rng, ["same", "same_inner", "other", "other_async"])})
        elif r < 0.9:
            steps.append({"do": "resolve", "hosts": [pick(rng, LOCALS)], "port": 6053})
        else:
            steps.append({"do": "sleep", "d": 0.5})
    steps.append({"do": "zm.close"})
    knobs = gen_knobs(rng)
    if rng.random() < 0.3:
        knobs["zc_create_fails"] = True
        events.append({"at": {"t": pick(rng, [0.0, 0.5, 3.5])}, "do": "fault", "kind": "knob", "name": "zc_create_fails", "value": False})
    net = gen_net(rng, LOCALS)
    for e in net["mdns"].values():
        if e["outcome"] == "hang":
            e["outcome"] = "none"
    for e in net["resolver"].values():
        if e["result"] == "hang":
            e["result"] = "empty"
    return {"family": "resolver-manager", "knobs": knobs, "net": net, "actors": [{"id": "a0", "at": {"t": 0.0}, "steps": steps}], "events": events, "end": 500.0}


def gen_client_resolve(rng: random.Random) -> dict:
    """Through the real connect path: the 30 s resolve timeout and the client's own manager."""
    hosts = [pick(rng, LOCALS + FQDNS) for _ in range(rng.randint(1, 2))]
    net = gen_net(rng, hosts)
    for h, e in list(net["resolver"].items()):
        if isinstance(e["result"], list):
            e["result"] = [[4, "10.0.0.5"]]
    for e in net["mdns"].values():
        e["v4"], e["v6"] = (["10.0.0.5"] if e["v4"] or e["v6"] else []), []
    net["connect"] = {"*": [{"outcome": pick(rng, ["ok", "refused"]), "latency": 0.001}]}
    if rng.random() < 0.3:
        hosts.insert(rng.randrange(len(hosts) + 1), pick(rng, ["fe80::1%3", "2001:db8::2%12", "fd00::5"]))  # (scoped literals reach the socket)
    knobs = gen_knobs(rng)
    if rng.random() < 0.4:
        knobs["zc_close_delay"] = pick(rng, [0.1, 0.5])
    events = []
    if rng.random() < 0.3:
        events.append({"at": {"t": pick(rng, [0.0, 0.01, 1.0, 3.0, 29.999, 30.0])}, "do": "poke", "what": pick(rng, ["cancel", "force_disconnect"]), "target": "a0", "phase": pick(rng, ["pre", "post"])})
    return {
        "family": "resolver-client",
        "knobs": knobs,
        "client": {"addresses": hosts, "keepalive": 20.0, "zeroconf": pick(rng, [None, None, "zeroconf", "async"])},
        "device": {},
        "net": net,
        "actors": [{"id": "a0", "at": {"t": 0.0}, "steps": [{"do": "connect", "login": False}, {"do": "disconnect"}]}],
        "events": events,
        "end": 500.0,
    }


class C20(CheckBase):
    pid = "C20"
    level = "exploration"
    quick_cases = 9600
    thorough_cases = 96000

    def cases(self, rng: random.Random, tier: str, idx: int) -> Iterable[dict]:
        r = idx % 8
        if r in (0, 1, 2, 3):
            yield gen_c20(rng)
        elif r == 4:
            yield from gen_cancel_sweep(rng)
        elif r in (5, 6):
            yield gen_manager_history(rng)
        else:
            yield gen_client_resolve(rng)

    def oracle(self, run: Any, scn: dict) -> list[Violation]:
        return resolver_oracle(Index(run.history), scn)

    def note(self, run: Any, scn: dict, notes: Any) -> None:
        for ev in run.history:
            if ev[3] in ("mdns_request", "getaddrinfo", "zc_new", "azc_close_end"):
                notes[ev[3]] += 1


CHECK = C20()
