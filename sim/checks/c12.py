"""C12 - dispatch exactly once in order; unknown types ignored; peer requests answered."""
from __future__ import annotations

import random
from typing import Any, Iterable

from ..core import EPOCH
from ..runner import CheckBase, Violation
from .common import gen_cuts, gen_knobs, gen_transport, pick
from .hist import Index

SUB_TYPES = ["SensorStateResponse", "SwitchStateResponse", "BinarySensorStateResponse", "TextSensorStateResponse", "LightStateResponse", "SubscribeLogsResponse", "BluetoothLEAdvertisementResponse", "HomeassistantServiceResponse"]


def _table():
    from ..engine import proto_table

    return proto_table()


def rand_fields(rng: random.Random, name: str) -> dict:
    from ..env import lib

    desc = getattr(lib().pb, name).DESCRIPTOR
    out: dict = {}
    for fd in desc.fields:
        if rng.random() < 0.5:
            continue
        rep = fd.is_repeated if hasattr(fd, "is_repeated") else fd.label == fd.LABEL_REPEATED
        if rep or fd.type == fd.TYPE_MESSAGE:
            continue
        if fd.type in (fd.TYPE_STRING,):
            out[fd.name] = pick(rng, ["", "a", "héllo", "x" * 40])
        elif fd.type == fd.TYPE_BYTES:
            out[fd.name] = bytes(rng.getrandbits(8) for _ in range(rng.randint(0, 6))).hex()
        elif fd.type == fd.TYPE_BOOL:
            out[fd.name] = bool(rng.getrandbits(1))
        elif fd.type in (fd.TYPE_FLOAT, fd.TYPE_DOUBLE):
            out[fd.name] = pick(rng, [0.0, 1.5, -2.25, 100.0])
        elif fd.type == fd.TYPE_ENUM:
            out[fd.name] = rng.choice([v.number for v in fd.enum_type.values])
        elif fd.type in (fd.TYPE_FIXED32, fd.TYPE_UINT32, fd.TYPE_FIXED64, fd.TYPE_UINT64):
            out[fd.name] = pick(rng, [0, 1, 127, 128, 65535, 2**31])
        else:
            out[fd.name] = pick(rng, [0, 1, -1, 127, 300])
    return out


def unknown_ids(rng: random.Random, noise: bool) -> list[int]:
    t = _table()
    pool = [0, t.max_id + 1, t.max_id + 2, 124, 127, 128, 255, 256, 300, 1000, 16383, 16384, 65535]
    if not noise:
        pool += [65536, 2**21, 2**28, 2**32 + 1, 2**35 - 1, 2**35, 2**42 + 7, 2**63 - 1]
    return [i for i in pool if i not in t.by_id]


def dispatch_oracle(ix: Index, scn: dict) -> list[Violation]:
    from ..env import lib

    out: list[Violation] = []
    pb = lib().pb
    table = _table()
    active: dict = {}
    cur: dict | None = None  # the dispatch in progress

    session: dict = {}

    def close_dispatch() -> None:
        nonlocal cur
        if cur is None:
            return
        d = cur
        cur = None
        name = d["name"]
        if d["kind"] == "unknown":
            if d["cbs"]:
                out.append(Violation("unknown-id-delivered", f"id{d['type'] if d['type'] in (0,) else 'N'}", f"frame with undefined type id {d['type']} produced callback(s) {[c[0] for c in d['cbs']]}"))
            if d["writes"]:
                out.append(Violation("unknown-id-effect", "write", f"frame with undefined type id {d['type']} caused a write"))
            if d["states"] or d["fatals"]:
                out.append(Violation("unknown-id-effect", "state", f"frame with undefined type id {d['type']} changed the connection state / raised a fatal error"))
            return
        if d["kind"] == "undecodable":
            if not any("ProtocolAPIError" in f["mro"] for f in d["fatals"]) or "CLOSED" not in d["states"]:
                out.append(Violation("undecodable-not-fatal", name, f"undecodable payload of known type {name} did not close the connection with ProtocolAPIError (fatals={[f['cls'] for f in d['fatals']]}, states={d['states']})"))
            if d["cbs"]:
                out.append(Violation("undecodable-delivered", name, f"undecodable payload of {name} reached subscriber(s)"))
            return
        # decodable, known: delivering it must not by itself end the session (a subscriber changing the subscriptions
        # from inside its callback included) - unless the message is the peer's DisconnectRequest, a subscriber raised or
        # closed the session itself, or a write failed synchronously while answering it
        if d["fatals"] and name != "DisconnectRequest" and not d.get("in_cb_close") and not d.get("excused"):
            out.append(Violation("valid-message-closed", d["fatals"][0]["cls"], f"delivery of a well-formed {name} (turn {d['turn']}) ended the session with {d['fatals'][0]['cls']}: {d['fatals'][0]['text'][:120]}"))
        elif d.get("loop_exc") and not d.get("excused") and not d.get("in_cb_close"):
            out.append(Violation("valid-message-closed", "escaped:" + str(d["loop_exc"].get("exc")), f"delivery of a well-formed {name} (turn {d['turn']}) let {d['loop_exc'].get('exc')}: {str(d['loop_exc'].get('text'))[:120]} escape from data_received"))
        holes = [sid for sid, _c, _d in d["cbs"] if sid in session.get("missed_after_raise", ())]
        if holes:
            out.append(Violation("delivery-hole", "", f"{holes[0]} missed the message during whose delivery another subscriber raised, yet it received the later {name} (turn {d['turn']}): its stream has a hole"))
            session["missed_after_raise"] = set()
        if d.get("raised"):
            got = {sid for sid, _c, _d in d["cbs"]}
            session["missed_after_raise"] = {sid for sid in d["snapshot"] if sid not in got}
        counts: dict = {}
        for sid, cname, data in d["cbs"]:
            counts[sid] = counts.get(sid, 0) + 1
            if cname != name:
                out.append(Violation("wrong-type-delivered", "", f"{sid} received {cname} for an incoming {name}"))
        for sid in d["snapshot"]:
            n = counts.get(sid, 0)
            # a subscriber unsubscribed by another callback during this very delivery was registered
            # when the message arrived: the current delivery must not be disturbed, it still gets it
            if n == 0 and d.get("raised"):
                continue  # the delivery was ended by a raising subscriber in front of this one
            if n != 1:
                out.append(Violation("not-exactly-once", ("missed" if n == 0 else "dup") + (":unsubscribed-during-delivery" if sid in d["removed"] else ""), f"{sid} was registered for {name} when it arrived (turn {d['turn']}) but received it {n}x"))
        for sid, n in counts.items():
            if sid not in d["snapshot"]:
                if sid in d["added"]:
                    if n > 1:
                        out.append(Violation("delivered-twice", "", f"{sid} received {name} {n}x"))
                else:
                    out.append(Violation("delivered-unregistered", "", f"{sid} received {name} although it was not registered for it at that moment"))

    expected_replies: list = []
    for ev in ix.h:
        seq, turn, t, kind, d = ev
        if cur is not None and turn != cur["turn"]:
            close_dispatch()
        if kind == "sub_add":
            # membership is per (callable, type): a second overlapping subscription of the same callable adds its types,
            # removing one subscription takes its types away (even those the other subscription also named)
            active[d["sid"]] = active.get(d["sid"], set()) | set(d["types"])
            if cur is not None:
                cur["added"].add(d["sid"])
        elif kind == "sub_remove":
            if "types" in d:
                active[d["sid"]] = active.get(d["sid"], set()) - set(d["types"])
            else:
                active.pop(d["sid"], None)
            if cur is not None:
                cur["removed"].add(d["sid"])
        elif kind == "sub_remove_again":
            # calling an unsubscribe callable again discards the callable from its types again: with an overlapping
            # second subscription of the same callable still alive that takes those types away from it as well
            if d["sid"] in active:
                active[d["sid"]] = active[d["sid"]] - set(d.get("types", []))
        elif kind == "pp":
            close_dispatch()
            mtype = d["type"]
            name = table.by_id.get(mtype)
            if d["state"] == "HANDSHAKE_COMPLETE" and not d["data"] and name in ("PingRequest", "GetTimeRequest", "DisconnectRequest"):
                # the internal request handlers exist from the moment the handshake completed: peer requests
                # arriving during the hello/login exchange are answered too (no subscriber can exist yet)
                expected_replies.append(({"PingRequest": "PingResponse", "GetTimeRequest": "GetTimeResponse", "DisconnectRequest": "DisconnectResponse"}[name], int(EPOCH + t) if name == "GetTimeRequest" else None, seq))
                if any(name in ts for ts in active.values()):
                    # a subscriber registered between the connect phases gets it as well: an ordinary delivery
                    cur = {"kind": "ok", "name": name, "turn": turn, "type": mtype, "snapshot": [s_ for s_, ts in active.items() if name in ts], "cbs": [], "added": set(), "removed": set(), "writes": 0, "states": [], "fatals": []}
                    if name == "DisconnectRequest":
                        cur["in_cb_close"] = True
                continue
            if d["state"] != "CONNECTED" and not (d["state"] == "HANDSHAKE_COMPLETE" and name is not None and any(name in ts for ts in active.values())):
                continue  # (a subscriber registered between the connect phases is served during the hello exchange too)
            if name is None:
                cur = {"kind": "unknown", "type": mtype, "name": None}
            else:
                msg = getattr(pb, name)()
                try:
                    msg.ParseFromString(d["data"])
                    cur = {"kind": "ok", "name": name}
                    if name == "PingRequest":
                        expected_replies.append(("PingResponse", None, seq))
                    elif name == "GetTimeRequest":
                        expected_replies.append(("GetTimeResponse", int(EPOCH + t), seq))
                    elif name == "DisconnectRequest":
                        expected_replies.append(("DisconnectResponse", None, seq))
                except Exception:
                    cur = {"kind": "undecodable", "name": name}
            if name == "DisconnectRequest":
                cur["in_cb_close"] = True  # the library's own handler closes the session in the middle of this delivery
            cur.update({"turn": turn, "type": mtype, "snapshot": [s for s, ts in active.items() if name in ts], "cbs": [], "added": set(), "removed": set(), "writes": 0, "states": [], "fatals": []})
        elif kind == "cb_raw":
            if cur is not None:
                cur["cbs"].append((d["sid"], d["name"], d["data"]))
            else:
                out.append(Violation("callback-without-message", "", f"{d['sid']} called with {d['name']} outside any dispatch"))
        elif kind == "tr_write":
            if cur is not None:
                cur["writes"] += 1
        elif kind == "state":
            if cur is not None:
                cur["states"].append(d["new"])
        elif kind == "fatal":
            if cur is not None:
                cur["fatals"].append(d["err"])
        elif kind == "loop_exception":
            if cur is not None and "data_received" in str(d.get("message")):
                cur["loop_exc"] = d
        elif kind in ("cb_raise", "tr_write_raised"):
            if cur is not None:
                cur["excused"] = True
                if kind == "cb_raise":
                    cur["raised"] = True
        elif kind == "cb_force_disconnect":
            if cur is not None:
                cur["in_cb_close"] = True
        elif kind == "sock_close" and cur is not None and cur.get("in_cb_close"):
            pass  # the close a subscriber performed from inside its callback: the delivery in progress goes on
        elif kind in ("recv", "recv_eof", "recv_err", "op_start", "poke", "sock_close") or ev[1] != (cur or {}).get("turn", ev[1]):
            close_dispatch()
    close_dispatch()

    # "ignored with no other effect": whatever arrives, every complete frame received while the connection is healthy is
    # handed on before the next read - an undefined type number must not stall the frames behind it
    from .framing import delivered_equals_complete

    first_bad = min([sq for c in ix.conns for sq, _e, _t in ix.fatal.get(c, [])] + list(ix.closed_seq.values()) + [float("inf")])
    for v in delivered_equals_complete(ix, until_seq=first_bad):
        out.append(Violation("frames-stalled" if v.rule == "lost-or-late" else "frames-" + v.rule, v.disc, "with undefined type ids in the stream: " + v.msg))
    # replies on the wire, seen by the device (independent decoder / responder)
    seen = [(ev[4]["name"], ev[4]["payload"]) for ev in ix.h if ev[3] == "dev_rx" and ev[4]["name"] in ("PingResponse", "GetTimeResponse", "DisconnectResponse")]
    # client-originated pings are answered by the device with PingResponse, never by the client: no confusion
    closed = min(ix.closed_seq.values()) if ix.closed_seq else None
    # the device side went away by itself (FIN/RST injected there) before the client closed: a reply may be lost on the way
    dev_ended = any(ev[3] == "dev_conn_end" and (closed is None or ev[0] < closed) for ev in ix.h)
    # (from the moment the transport refuses every write, an answer cannot reach the wire: the close that must follow is judged below)
    refusing = min([ev[0] for ev in ix.h if ev[3] == "write_raises_armed"] + [float("inf")])
    must = [e for e in expected_replies if (closed is None or e[2] < closed) and e[2] < refusing]
    for i, (name, val, seq) in enumerate(must):
        if i >= len(seen):
            if dev_ended and closed is not None:
                break  # the device side had gone before the reply could arrive
            out.append(Violation("request-unanswered", name, f"device request #{i} expected {name} but the client wrote only {[s[0] for s in seen]}"))
            break
        if seen[i][0] != name:
            out.append(Violation("wrong-reply", f"{name}<-{seen[i][0]}", f"device request #{i}: expected {name}, client wrote {seen[i][0]}"))
            break
        if name == "GetTimeResponse":
            m = pb.GetTimeResponse()
            m.ParseFromString(seen[i][1])
            if abs(m.epoch_seconds - val) > 1:
                out.append(Violation("wrong-time", "", f"GetTimeResponse carries {m.epoch_seconds}, current (virtual) time is {val}"))
    # the peer's disconnect request takes effect at once: answered and closed in the turn it is delivered, whatever else is
    # going on (an own graceful disconnect still waiting for its answer included)
    for name, val, seq in expected_replies:
        if name == "DisconnectResponse" and ix.conns:
            c0 = ix.conns[0]
            cs = ix.closed_seq.get(c0)
            if cs is not None and cs < seq:
                continue
            raised = any(ev[3] == "cb_raise" and ev[1] == ix.seq_turn[seq] for ev in ix.h)
            if (cs is None or ix.seq_turn[cs] > ix.seq_turn[seq]) and not raised:
                out.append(Violation("disconnect-request-late-close", "", f"the device's DisconnectRequest was delivered at turn {ix.seq_turn[seq]} but the connection " + ("never closed" if cs is None else f"closed only at turn {ix.seq_turn[cs]}")))
                break
    # disconnect request: response first, then an expected close
    for name, val, seq in expected_replies:
        if name == "DisconnectResponse" and (closed is None or seq < closed):
            c = ix.conns[0]
            stops = ix.on_stop.get(c, [])
            if ix.final_state(c) != "CLOSED":
                out.append(Violation("disconnect-request-no-close", "", "device DisconnectRequest delivered but the connection did not close"))
            elif stops and not stops[0][1]:
                out.append(Violation("disconnect-request-unexpected", "", "close after a device DisconnectRequest reported as unexpected"))
            break
    return out


def silent_keepalive_oracle(ix: Index, scn: dict) -> list[Violation]:
    """Undefined ids must not count as a sign of life: the peer is otherwise silent, so it must be dropped on time."""
    out: list[Violation] = []
    K = scn["client"]["keepalive"]
    c = ix.conns[0] if ix.conns else None
    if c is None or c not in ix.connected_seq:
        return out
    t_conn = next(t for s, tu, t, old, new in ix.states[c] if new == "CONNECTED")
    want = t_conn + K + 4.5 * K
    fat = ix.fatal.get(c, [])
    if not fat:
        out.append(Violation("unknown-id-keepalive", "alive", f"peer sent only undefined-type frames and never a pong, but the connection was not dropped (want PingFailed at t={want:.3f})"))
    else:
        seq, err, t = fat[0]
        if err["cls"] != "PingFailedAPIError" or abs(t - want) > 1e-6 * K + 1e-9:
            out.append(Violation("unknown-id-keepalive", "time", f"first fatal {err['cls']} at t={t:.6f}; a peer silent except for undefined-type frames must be dropped with PingFailed at {want:.6f}"))
    return out


def gen_dispatch(rng: random.Random) -> dict:
    client: dict = {"addresses": ["10.0.0.5"], "keepalive": 60.0}
    device: dict = {}
    gen_transport(rng, client, device, noise_p=0.3)
    noise = device.get("transport") == "noise"
    nsub = rng.randint(1, 5)
    steps: list[dict] = [{"do": "connect", "login": rng.random() < 0.5}]
    sids = [f"s{i}" for i in range(nsub)]
    specs = {}
    for sid in sids:
        types = rng.sample(SUB_TYPES, rng.randint(1, 3))
        beh = []
        if rng.random() < 0.4:
            r = rng.random()
            n = rng.randint(1, 3)
            if r < 0.4:
                beh.append({"on_call": n, "do": "remove_self"})
            elif r < 0.7:
                beh.append({"on_call": n, "do": "remove", "sid": rng.choice(sids)})
            elif r < 0.78:
                # closes the session from inside the callback: the delivery in progress still reaches everyone registered
                beh.append({"on_call": n, "do": "force_disconnect"})
            elif r < 0.84:
                # an application bug: the callback raises. That delivery and the session end there - the subscribers behind
                # it get a stream that is cut short, never one with a hole
                beh.append({"on_call": n, "do": "raise"})
            else:
                # (half of the time for the very type(s) being delivered: the registration made during a delivery must not
                # disturb it)
                beh.append({"on_call": n, "do": "add", "new": {"sid": sid + "x", "types": list(types) if rng.random() < 0.5 else rng.sample(SUB_TYPES, rng.randint(1, 2))}})
        specs[sid] = (types, beh)
    t = 0.5
    order = list(sids)
    rng.shuffle(order)
    for sid in order:
        steps.append({"do": "sleep", "d": pick(rng, [0.0, 0.0, 0.3, 1.0])})
        steps.append({"do": "add_cb", "sid": sid, "types": specs[sid][0], "behaviors": specs[sid][1]})
    removals = [rng.choice(sids) for _ in range(rng.randint(0, 3))]
    if rng.random() < 0.2:
        # the same callable subscribed a second time for overlapping types; both subscriptions removed in either order
        sid = rng.choice(sids)
        own = specs[sid][0]
        types2 = sorted(set(rng.sample(own, rng.randint(1, len(own))) + (rng.sample(SUB_TYPES, 1) if rng.random() < 0.5 else [])))
        steps.append({"do": "add_cb_again", "sid": sid, "key": sid + "#2", "types": types2})
        removals += [sid, sid + "#2"]
        rng.shuffle(removals)
    for r_sid in removals:
        steps.append({"do": "sleep", "d": pick(rng, [0.2, 1.0, 2.0])})
        steps.append({"do": "remove_cb", "sid": r_sid})
    steps.append({"do": "sleep", "d": 20.0})
    steps.append({"do": "disconnect"})
    events = []
    unk = unknown_ids(rng, noise)
    for _ in range(rng.randint(2, 10)):
        msgs: list = []
        for _ in range(rng.randint(1, 5)):
            r = rng.random()
            if r < 0.7:
                name = pick(rng, SUB_TYPES)
                msgs.append([name, rand_fields(rng, name)])
            elif r < 0.8:
                msgs.append([pick(rng, ["PingRequest", "GetTimeRequest"]), {}])
            elif r < 0.93:
                msgs.append({"type": rng.choice(unk), "payload_hex": bytes(rng.getrandbits(8) for _ in range(rng.randint(0, 8))).hex()})
            else:
                # a client-originated / odd known type coming from the device
                msgs.append([pick(rng, ["HelloRequest", "DeviceInfoRequest", "PingResponse", "ListEntitiesDoneResponse"]), {}])
        events.append({"at": {"t": 0.4 + rng.random() * 6.0}, "do": "dev", "act": {"msgs": msgs, "latency": pick(rng, [0.0, 0.001])}})
    r = rng.random()
    if r < 0.25:
        # an undecodable payload of a known type ends the session
        # (any defined type, those without fields and those the library answers itself included)
        name = pick(rng, SUB_TYPES) if rng.random() < 0.5 else pick(rng, sorted(_table().by_name))
        mid = _table().by_name[name]
        bad = pick(rng, ["0aff01", "ffffffff", "0a05616263", "08"])
        events.append({"at": {"t": 7.0}, "do": "dev", "act": {"msgs": [{"type": mid, "payload_hex": bad, "name": "#maybe_bad"}], "latency": 0.0}})
    elif r < 0.45:
        events.append({"at": {"t": 7.0}, "do": "dev", "act": {"msgs": [["DisconnectRequest", {}]], "latency": 0.0}})
        if rng.random() < 0.2:
            # the transport refuses the answer (its peer is gone already): the session is over all the same
            events.append({"at": {"t": 6.9}, "do": "fault", "kind": "write_raises", "always": True, "exc": pick(rng, ["OSError", "RuntimeError"])})
    if rng.random() < 0.15:
        # simultaneous disconnect: the device's own DisconnectRequest arrives while the client's disconnect() is
        # still waiting for its DisconnectResponse (which the device delays or never sends)
        device.setdefault("replies", {})["DisconnectRequest"] = pick(rng, [["silent"], [{"msgs": [["DisconnectResponse", {}]], "delay": pick(rng, [0.2, 2.0])}]])
        events.append({"at": {"on": "op_start", "match": {"actor": "a0", "do": "disconnect"}, "delay": pick(rng, [0.0, 0.002, 0.05])}, "do": "dev", "act": {"msgs": [["DisconnectRequest", {}]], "latency": pick(rng, [0.0, 0.001])}})
    if rng.random() < 0.3:
        # peer requests during the hello/login exchange (behind or in front of the final response, same write)
        login = steps[0]["login"]
        hr = ["HelloResponse", {"api_version_major": 1, "api_version_minor": 10, "name": "simdev", "server_info": "sim"}]
        reqs = [[pick(rng, ["PingRequest", "GetTimeRequest", "PingRequest", "GetTimeRequest", "DisconnectRequest"]), {}] for _ in range(rng.randint(1, 2))]
        if login and rng.random() < 0.5:
            device.setdefault("replies", {})["ConnectRequest"] = [{"msgs": (reqs + [["ConnectResponse", {}]]) if rng.random() < 0.4 else ([["ConnectResponse", {}]] + reqs)}]
        else:
            device.setdefault("replies", {})["HelloRequest"] = [{"msgs": (reqs + [hr]) if rng.random() < 0.4 else ([hr] + reqs)}]
    return {
        "family": "dispatch",
        "knobs": gen_knobs(rng),
        "client": client,
        "device": device,
        "net": {"cuts": gen_cuts(rng), "c2d_latency": 0.001, "d2c_latency": [pick(rng, [0.0, 0.001])]},
        "actors": [{"id": "a0", "at": {"t": 0.0}, "steps": steps}],
        "events": events,
        "end": 100.0,
    }


def gen_early_subscriber(rng: random.Random) -> dict:
    """A subscriber registered on the connection object before the handshake (between the two connect phases), also for
    the peer request types the library answers itself: it is registered 'at that moment' like any other."""
    client: dict = {"addresses": ["10.0.0.5"], "keepalive": 60.0}
    device: dict = {}
    gen_transport(rng, client, device, noise_p=0.3)
    req_types = ["PingRequest", "GetTimeRequest", "DisconnectRequest"]
    types = rng.sample(req_types, rng.randint(1, 3)) + rng.sample(SUB_TYPES, rng.randint(0, 2))
    steps: list[dict] = [{"do": "conn.new"}, {"do": "conn.start"}, {"do": "conn.add_cb", "sid": "s0", "types": types, "behaviors": []}, {"do": "conn.finish", "login": rng.random() < 0.5}]
    if rng.random() < 0.5:
        steps.append({"do": "conn.add_cb", "sid": "s1", "types": rng.sample(req_types + SUB_TYPES[:3], 2), "behaviors": []})
    steps += [{"do": "sleep", "d": 10.0}, {"do": "conn.disconnect"}]
    events = []
    for _ in range(rng.randint(2, 6)):
        msgs = []
        for _ in range(rng.randint(1, 3)):
            name = pick(rng, ["PingRequest", "GetTimeRequest", "PingRequest"] + SUB_TYPES[:4])
            msgs.append([name, rand_fields(rng, name) if name in SUB_TYPES else {}])
        events.append({"at": {"t": 0.5 + rng.random() * 5.0}, "do": "dev", "act": {"msgs": msgs, "latency": pick(rng, [0.0, 0.001])}})
    if rng.random() < 0.4:
        events.append({"at": {"t": 7.0}, "do": "dev", "act": {"msgs": [["DisconnectRequest", {}]], "latency": 0.0}})
    return {"family": "dispatch", "knobs": gen_knobs(rng), "client": client, "device": device, "net": {"cuts": gen_cuts(rng), "c2d_latency": 0.001, "d2c_latency": [pick(rng, [0.0, 0.001])]}, "actors": [{"id": "a0", "at": {"t": 0.0}, "steps": steps}], "events": events, "end": 100.0}


def gen_unknown_keepalive(rng: random.Random) -> dict:
    K = pick(rng, [1.0, 2.0, 5.0])
    client: dict = {"addresses": ["10.0.0.5"], "keepalive": K}
    device: dict = {"replies": {"PingRequest": ["silent"]}}
    gen_transport(rng, client, device, noise_p=0.3)
    noise = device.get("transport") == "noise"
    unk = unknown_ids(rng, noise)
    ids = [rng.choice(unk)] if rng.random() < 0.7 else unk
    events = []
    n = int(8 * K / (K / 2))
    for j in range(1, n + 1):
        events.append({"at": {"on": "state", "match": {"new": "CONNECTED"}, "delay": j * K / 2 + 0.01}, "do": "dev", "act": {"msgs": [{"type": ids[j % len(ids)], "payload_hex": pick(rng, ["", "00", "0a00"])}], "latency": 0.0}})
    return {
        "family": "dispatch-keepalive",
        "knobs": gen_knobs(rng),
        "client": client,
        "device": device,
        "net": {"cuts": {"mode": "coalesce"}, "c2d_latency": 0.001, "d2c_latency": [0.001]},
        "actors": [{"id": "a0", "at": {"t": 0.0}, "steps": [{"do": "connect", "login": False}]}],
        "events": events,
        "end": 20 * K,
    }


def gen_id_block(lo: int, hi: int, noise: bool, rng: random.Random) -> dict:
    t = _table()
    client: dict = {"addresses": ["10.0.0.5"], "keepalive": 600.0}
    device: dict = {}
    if noise:
        gen_transport(rng, client, device, noise_p=1.0)
    ids = [i for i in range(lo, hi) if i not in t.by_id]
    events = []
    for k in range(0, len(ids), 64):
        events.append({"at": {"t": 1.0 + k * 0.001}, "do": "dev", "act": {"msgs": [{"type": i, "payload_hex": ""} for i in ids[k : k + 64]], "latency": 0.0}})
    steps = [{"do": "connect", "login": False}, {"do": "add_cb", "sid": "s0", "types": SUB_TYPES}, {"do": "sleep", "d": 5.0}, {"do": "disconnect"}]
    return {"family": "dispatch-ids", "id_block": [lo, hi], "knobs": {}, "client": client, "device": device, "net": {"cuts": {"mode": "coalesce"}}, "actors": [{"id": "a0", "at": {"t": 0.0}, "steps": steps}], "events": events, "end": 50.0, "max_turns": 100000}


def gen_pong_subscriber(rng: random.Random) -> dict:
    """An idle link with a short keepalive: the library pings, the device answers - and something is subscribed to
    PingResponse (an application-level ping, a diagnostics hook): every answer is an incoming message like any other."""
    K = pick(rng, [0.5, 1.0, 2.0])
    client: dict = {"addresses": ["10.0.0.5"], "keepalive": K}
    device: dict = {}
    gen_transport(rng, client, device, noise_p=0.3)
    steps = [{"do": "connect", "login": False}, {"do": "add_cb", "sid": "s0", "types": ["PingResponse"] + rng.sample(SUB_TYPES, rng.randint(0, 2))}, {"do": "sleep", "d": K * pick(rng, [3.5, 6.2])}, {"do": "disconnect"}]
    events = []
    if rng.random() < 0.5:
        events.append({"at": {"t": K * 2.4}, "do": "dev", "act": {"msgs": [["PingResponse", {}]], "latency": 0.0}})  # an unsolicited one
    return {"family": "dispatch-pong", "knobs": gen_knobs(rng), "client": client, "device": device, "net": {"cuts": gen_cuts(rng), "c2d_latency": 0.001, "d2c_latency": [pick(rng, [0.0, 0.001])]}, "actors": [{"id": "a0", "at": {"t": 0.0}, "steps": steps}], "events": events, "end": 50.0}


def gen_every_defined(rng: random.Random) -> dict:
    """Every defined type id once (the lowest and the highest included), a subscriber registered for each of them."""
    t = _table()
    client: dict = {"addresses": ["10.0.0.5"], "keepalive": 600.0}
    device: dict = {}
    gen_transport(rng, client, device, noise_p=0.3)
    names = [t.by_id[i] for i in sorted(t.by_id) if t.by_id[i] != "DisconnectRequest"]
    order = list(names)
    rng.shuffle(order)
    # the ends of the table in front, so that a cut or an early close cannot hide them
    order.sort(key=lambda n: 0 if n in (names[0], names[-1]) else 1)
    events = []
    blk = pick(rng, [1, 7, 16, 64])
    for k in range(0, len(order), blk):
        events.append({"at": {"t": 1.0 + (k // blk) * 0.01}, "do": "dev", "act": {"msgs": [[n, rand_fields(rng, n) if rng.random() < 0.3 else {}] for n in order[k : k + blk]], "latency": 0.0}})
    if rng.random() < 0.5:
        events.append({"at": {"t": 4.0}, "do": "dev", "act": {"msgs": [["DisconnectRequest", {}]], "latency": 0.0}})
    steps = [{"do": "connect", "login": False}, {"do": "add_cb", "sid": "s0", "types": names}]
    if rng.random() < 0.5:
        steps.append({"do": "add_cb", "sid": "s1", "types": rng.sample(names, 5) + [names[-1]]})
    steps += [{"do": "sleep", "d": 5.0}, {"do": "disconnect"}]
    return {"family": "dispatch-defined", "knobs": gen_knobs(rng), "client": client, "device": device, "net": {"cuts": gen_cuts(rng), "c2d_latency": 0.001, "d2c_latency": [pick(rng, [0.0, 0.001])]}, "actors": [{"id": "a0", "at": {"t": 0.0}, "steps": steps}], "events": events, "end": 50.0, "max_turns": 100000}


class C12(CheckBase):
    pid = "C12"
    level = "exploration"
    quick_cases = 9600
    thorough_cases = 96000

    def cases(self, rng: random.Random, tier: str, idx: int) -> Iterable[dict]:
        if tier == "thorough" and idx < 256:
            # exhaustive id sweep: every type id 0..65535 once (blocks of 512, alternating transports)
            lo = (idx % 128) * 512
            yield gen_id_block(lo, lo + 512, idx >= 128, rng)
            return
        if idx % 6 == 5:
            yield gen_unknown_keepalive(rng)
        elif idx % 12 == 3:
            yield gen_early_subscriber(rng)
        elif idx % 24 == 9:
            yield gen_every_defined(rng)
        elif idx % 48 == 21:
            yield gen_pong_subscriber(rng)
        elif idx % 40 == 7:
            lo = rng.randrange(0, 65536 - 512)
            yield gen_id_block(lo, lo + 512, rng.random() < 0.3, rng)
        else:
            yield gen_dispatch(rng)

    def oracle(self, run: Any, scn: dict) -> list[Violation]:
        ix = Index(run.history)
        out = dispatch_oracle(ix, scn)
        if scn["family"] == "dispatch-keepalive":
            out += silent_keepalive_oracle(ix, scn)
        return out

    def extra_evidence(self, stats: dict) -> dict:
        return {"id_sweep": "thorough cases 0..255 enumerate every type id 0..65535 exactly once per transport (128 blocks of 512 ids, plaintext and noise); ids beyond 16 bits (large varints) are sampled on plaintext"}


CHECK = C12()
