"""History index shared by the session oracles."""
from __future__ import annotations

from typing import Any

HARNESS_STEPS = {"sleep", "yield", "wait"}
INTERNAL_HANDLER_TYPES = {5, 7, 36}  # DisconnectRequest, PingRequest, GetTimeRequest (api.proto ids)


class Op:
    __slots__ = ("actor", "i", "do", "args", "s0", "t0", "turn0", "s1", "t1", "ok", "err", "value", "cancelled", "requested", "conn")

    def __init__(self, ev: tuple) -> None:
        d = ev[4]
        self.actor = d["actor"]
        self.i = d["i"]
        self.do = d["do"]
        self.args = d.get("args", {})
        self.s0 = ev[0]
        self.turn0 = ev[1]
        self.t0 = ev[2]
        self.s1: int | None = None
        self.t1: float | None = None
        self.ok: bool | None = None
        self.err: dict | None = None
        self.value: Any = None
        self.cancelled = False
        self.requested = False
        self.conn: str | None = None


class Index:
    """One pass over a history; everything the oracles need, keyed by connection object id."""

    def __init__(self, history: list) -> None:
        self.h = history
        self.ops: list[Op] = []
        self.conns: list[str] = []
        self.conn_new_seq: dict = {}
        self.states: dict = {}  # conn -> [(seq, turn, t, old, new)]
        self.closed_seq: dict = {}
        self.closed_t: dict = {}
        self.connected_seq: dict = {}
        self.on_stop: dict = {}  # conn -> [(seq, expected)]
        self.user_on_stop: list = []
        self.fd_conn: dict = {}  # fd -> conn object id (owner)
        self.cid_fd: dict = {}  # device-side conn id -> fd
        self.fd_cid: dict = {}
        self.disc_calls: dict = {}  # conn -> [(seq, force, state)]
        self.disc_keys: dict = {}  # conn -> [(turn, seq)]
        self.seq_turn: dict = {}
        self.pp: dict = {}  # conn -> [(seq, type, data, state)]
        self.fatal: dict = {}  # conn -> [(seq, err)]
        self.tr_writes: dict = {}  # fd -> [(seq, data)]
        self.sends: dict = {}
        self.recvs: dict = {}  # fd -> [(seq, total)]
        self.cbs: list = []  # (seq, kind, data)
        self.dev_tx: dict = {}  # cid -> [dict]
        self.causes: dict = {}  # fd -> [(seq, sig, detail)] delivered fatal causes (simulator view)
        self.audit: dict | None = None
        self.run_end: tuple | None = None
        self.stalls: list = []
        self.loop_exceptions: list = []
        self.cancels: list = []
        self.unclosed_transports: list = []
        self.post_close_timers: list = []
        cur_conn: str | None = None
        open_ops: dict = {}
        pending_frames: dict = {}  # fd -> list of (end, name)
        for ev in history:
            seq, turn, t, kind, d = ev
            self.seq_turn[seq] = turn
            if kind == "op_start":
                op = Op(ev)
                self.ops.append(op)
                open_ops[(d["actor"], d["i"])] = op
                if d["do"] not in ("connect", "start", "conn.new", "fh.attach"):
                    op.conn = cur_conn
            elif kind == "op_end":
                op = open_ops.pop((d["actor"], d["i"]), None)
                if op is not None:
                    op.s1 = seq
                    op.t1 = t
                    op.ok = bool(d.get("ok"))
                    op.err = d.get("err")
                    op.value = d.get("value")
                    op.cancelled = bool(d.get("cancelled"))
                    op.requested = bool(d.get("requested"))
            elif kind == "conn_new":
                cur_conn = d["conn"]
                self.conns.append(cur_conn)
                self.conn_new_seq[cur_conn] = seq
                for op in open_ops.values():
                    if op.do in ("connect", "start", "conn.new") and op.conn is None:
                        op.conn = cur_conn
            elif kind == "state":
                self.states.setdefault(d["conn"], []).append((seq, turn, t, d["old"], d["new"]))
                if d["new"] == "CLOSED" and d["conn"] not in self.closed_seq:
                    self.closed_seq[d["conn"]] = seq
                    self.closed_t[d["conn"]] = t
                if d["new"] == "CONNECTED" and d["conn"] not in self.connected_seq:
                    self.connected_seq[d["conn"]] = seq
            elif kind == "on_stop":
                self.on_stop.setdefault(d["conn"], []).append((seq, d["expected"]))
            elif kind == "user_on_stop":
                self.user_on_stop.append((seq, d["tag"], d["expected"]))
            elif kind == "sock_new":
                self.fd_conn[d["fd"]] = cur_conn
            elif kind == "tcp_established":
                self.cid_fd[d["conn"]] = d["fd"]
                self.fd_cid[d["fd"]] = d["conn"]
            elif kind == "disc_call":
                if d["conn"] is not None:
                    self.disc_calls.setdefault(d["conn"], []).append((seq, d["force"], d["state"]))
                    self.disc_keys.setdefault(d["conn"], []).append((turn, seq))
            elif kind == "pp":
                self.pp.setdefault(d["conn"], []).append((seq, d["type"], d["data"], d["state"], turn, t))
            elif kind == "fatal":
                self.fatal.setdefault(d["conn"], []).append((seq, d["err"], t))
            elif kind == "tr_write":
                self.tr_writes.setdefault(d["fd"], []).append((seq, d["data"], turn, t))
            elif kind == "send":
                self.sends.setdefault(d["fd"], []).append((seq, d["n"]))
            elif kind == "recv":
                fd = d["fd"]
                self.recvs.setdefault(fd, []).append((seq, d["total"]))
                pf = pending_frames.get(fd)
                if pf:
                    while pf and pf[0][0] <= d["total"]:
                        end, name, fkind = pf.pop(0)
                        if fkind == "garbage" or name in ("#bad_payload", "#requires_encryption"):
                            self.causes.setdefault(fd, []).append(((turn, seq), "garbage:" + str(name), None))
                        elif name == "DisconnectRequest":
                            self.causes.setdefault(fd, []).append(((turn, seq), "peer_disconnect", None))
            elif kind == "recv_eof":
                self.causes.setdefault(d["fd"], []).append(((turn, seq), "eof", None))
            elif kind == "recv_err":
                # the transport tells the protocol one turn later (connection_lost via call_soon)
                self.causes.setdefault(d["fd"], []).append(((turn + 1, -1), "oserror", d.get("err")))
            elif kind == "tr_write_raised":
                # the library is told at once, inside the writing call (possibly while an earlier frame of a chunk is processed)
                self.causes.setdefault(d["fd"], []).append(((turn, seq), "write_raise", d.get("fault")))
            elif kind == "send_err":
                self.causes.setdefault(d["fd"], []).append(((turn + 1, -1), "send_oserror", d.get("err")))
            elif kind == "dev_tx":
                self.dev_tx.setdefault(d["conn"], []).append(d)
                fd = self.cid_fd.get(d["conn"])
                if fd is not None:
                    pending_frames.setdefault(fd, []).append((d["end"], d["name"], d.get("kind")))
            elif kind.startswith("cb_"):
                self.cbs.append((seq, kind, d, turn, t))
            elif kind == "audit":
                self.audit = d
            elif kind == "run_end":
                self.run_end = ev
            elif kind == "stall":
                self.stalls.append((seq, d["d"]))
            elif kind == "loop_exception":
                self.loop_exceptions.append((seq, d))
            elif kind == "cancel_sent":
                self.cancels.append((seq, d["actor"], d["i"]))
            elif kind == "post_close_timers":
                self.post_close_timers.append((seq, d["conn"], d["timers"], turn, t))
            elif kind == "tr_del_unclosed":
                self.unclosed_transports.append((seq, d))
        self.open_ops = list(open_ops.values())

    def conn_fds(self, conn: str) -> list[int]:
        return [fd for fd, c in self.fd_conn.items() if c == conn]

    def final_state(self, conn: str) -> str | None:
        st = self.states.get(conn)
        return st[-1][4] if st else None
