"""C02 - everything the client writes conforms to the documented wire format."""
from __future__ import annotations

import base64
import random
from typing import Any, Iterable

from .. import wire
from ..device import gen_bytes
from ..runner import CheckBase, Violation
from .common import gen_cuts, gen_knobs, gen_transport, pick
from .hist import Index

BOUNDARY = [0, 1, 2, 126, 127, 128, 129, 16382, 16383, 16384, 16385, 65514, 65515]
# ... and where a length byte of the encrypted framing rolls over: payload + 4 (inner header) [+ 16 (tag)] = 255, 256, 257, ...
BOUNDARY += [235, 236, 237, 251, 252, 253, 254, 255, 256, 257, 491, 492, 493, 65259, 65260, 65261, 65279, 65280, 65281]
# client-originated messages with one big bytes/string field: (name, field, is_bytes)
BIG = [("VoiceAssistantAudio", "data", True), ("BluetoothGATTWriteRequest", "data", True), ("HomeAssistantStateResponse", "state", False), ("TextCommandRequest", "state", False)]
SMALL = [["SwitchCommandRequest", {"key": 1, "state": True}], ["PingRequest", {}], ["CameraImageRequest", {"single": True}], ["SubscribeStatesRequest", {}], ["ButtonCommandRequest", {"key": 7}], ["NumberCommandRequest", {"key": 3, "state": 2.5}], ["SubscribeLogsRequest", {"level": 3}], ["BluetoothDeviceRequest", {"address": 2**47 + 5, "request_type": 1}]]


def _table():
    from ..engine import proto_table

    return proto_table()


def sized_msg(rng: random.Random, target: int, which: tuple | None = None) -> list:
    """A client message whose serialized payload is exactly `target` bytes (when reachable)."""
    from ..device import build_msg
    from ..env import lib

    pb = lib().pb
    name, field, is_bytes = which or pick(rng, BIG)
    if target < 4:
        return [name, {}] if target == 0 else ["SwitchCommandRequest", {"key": 1, "state": True}]
    seed = rng.getrandbits(20)
    n = max(0, target - 4)
    for _ in range(8):
        spec = [name, {field: {"gen": [n, seed]}}]
        ln = len(build_msg(pb, spec[0], spec[1]).SerializeToString())
        if ln == target:
            return spec
        n += target - ln
        if n < 0:
            break
    return [name, {field: {"gen": [max(0, n), seed]}}]


def expected_frames(msgs: list) -> list[tuple[int, bytes]]:
    from ..device import build_msg
    from ..env import lib

    pb = lib().pb
    t = _table()
    return [(t.by_name[n], build_msg(pb, n, f).SerializeToString()) for n, f in msgs]


NOISE_MAX_PAYLOAD = 65535 - 4 - 16  # a Noise frame carries a 16-bit length: 4 header bytes + payload + 16 tag bytes


def wire_oracle(ix: Index, scn: dict) -> list[Violation]:
    out: list[Violation] = []
    t = _table()
    noise = scn["device"].get("transport") == "noise"
    if noise:
        # a message the Noise framing cannot carry: the only conformant outcomes are a refusal that writes nothing of the batch
        # or - none exists - a decodable stream; accepting it means a frame with a wrapped length field goes out and the
        # responder loses the frame boundaries for good
        for op in ix.ops:
            if op.do == "send" and op.s1 is not None and any(len(p) > NOISE_MAX_PAYLOAD for _t, p in expected_frames([m for m in op.args["msgs"] if m[0] in t.by_name])):
                fd_writes = [seq for lst in ix.tr_writes.values() for seq, *_ in lst if op.s0 < seq < op.s1]
                if op.ok or fd_writes:
                    out.append(Violation("oversize-accepted", "noise", f"{op.actor}[{op.i}] send with a payload above {NOISE_MAX_PAYLOAD} bytes on an encrypted session was {'accepted' if op.ok else 'partly written'} ({len(fd_writes)} write(s))"))
                    return out
    for ev in ix.h:
        if ev[3] == "dev_wire_error":
            out.append(Violation("undecodable-write", "noise" if noise else "plaintext", f"the independent strict decoder rejected the client's byte stream: {ev[4]['err']}"))
            return out
    client_types = set(t.client_types())
    # a batch of well-formed client messages handed to a live session is written, not refused
    for op in ix.ops:
        if op.do == "send" and op.s1 is not None and not op.ok and not op.cancelled and op.conn is not None:
            msgs = op.args["msgs"]
            if any(m[0] not in t.by_name for m in msgs):
                continue  # (the refused-batch family: a message class without a type id)
            if noise and any(len(p_) > NOISE_MAX_PAYLOAD for _t, p_ in expected_frames(msgs)):
                continue
            T = ix.closed_seq.get(op.conn)
            if (T is None or T > op.s1) and op.conn in ix.connected_seq and ix.connected_seq[op.conn] < op.s0:
                err = op.err or {}
                out.append(Violation("valid-batch-refused", str(err.get("cls")), f"{op.actor}[{op.i}] send of {[(m[0]) for m in msgs][:4]} (largest payload {max(len(p_) for _t, p_ in expected_frames(msgs))} bytes) on a live session failed with {err.get('cls')}: {str(err.get('text'))[:100]}"))
                return out
    for c in ix.conns:
        for fd in ix.conn_fds(c):
            writes = ix.tr_writes.get(fd, [])
            if not writes:
                continue
            # which writes belong to which harness batch
            batch_of: dict = {}
            for op in ix.ops:
                if op.do in ("send", "fh.write") and op.s1 is not None and (op.conn is None or ix.fd_conn.get(fd) in (None, op.conn)):  # (a batch belongs to the session it was sent on)
                    inside = [i for i, (seq, data, turn, tt) in enumerate(writes) if op.s0 < seq < op.s1]
                    n_given = len(op.args.get("msgs", op.args.get("packets", [])))
                    if op.ok and n_given == 0:
                        # an empty batch: nothing to say - no write at all, or one that carries no byte
                        if any(writes[i][1] for i in inside):
                            out.append(Violation("undecodable-write", "empty-batch", f"{op.do} of an empty batch wrote {b''.join(bytes(writes[i][1]) for i in inside).hex()}"))
                        continue
                    if op.ok and len(inside) != 1:
                        out.append(Violation("writes-per-batch", str(len(inside)), f"{op.do} batch of {len(op.args.get('msgs', op.args.get('packets', [])))} message(s) produced {len(inside)} transport.write call(s)"))
                    if op.ok and inside:
                        batch_of[inside[0]] = op
            cid = ix.fd_cid.get(fd)
            dev_rx = [(ev[4]["type"], ev[4]["payload"]) for ev in ix.h if ev[3] == "dev_rx" and ev[4]["conn"] == cid]
            pos = 0
            dec = wire.PlainDecoder()
            odec = wire.NoiseOuterDecoder()
            first = True
            if not noise:
                # what the device decoded is a prefix of what the library handed over, write by write: a buffer that is
                # reused or changed after transport.write() returned (the transport may still hold it, uncopied, while
                # the peer is slow) shows up here and nowhere else
                handed: list = []
                d2 = wire.PlainDecoder()
                try:
                    for _seq, data, _turn, _tt in writes:
                        handed += d2.feed(data)
                except wire.WireError:
                    handed = []
                if handed and dev_rx != handed[: len(dev_rx)]:
                    k = next(j for j, (a, b) in enumerate(zip(dev_rx, handed)) if a != b)
                    out.append(Violation("received-differs-from-written", "plaintext", f"frame #{k} decoded by the device is {(dev_rx[k][0], dev_rx[k][1][:16])} but the library wrote {(handed[k][0], handed[k][1][:16])} at that position"))
                    return out
            for i, (seq, data, turn, tt) in enumerate(writes):
                op = batch_of.get(i)
                if op is not None:
                    if op.do == "send":
                        want = expected_frames(op.args["msgs"])
                    else:
                        want = [(p["type"], gen_bytes(p["gen"][0], p["gen"][1]) if "gen" in p else bytes.fromhex(p.get("payload_hex", ""))) for p in op.args["packets"]] * int(op.args.get("repeat", 1))
                else:
                    want = None
                if not noise:
                    try:
                        got = dec.feed(data)
                    except wire.WireError as exc:
                        out.append(Violation("undecodable-write", "plaintext", f"write #{i} does not decode under the strict plaintext decoder: {exc}"))
                        return out
                    if dec.buf:
                        out.append(Violation("partial-frame-write", "", f"write #{i} ends inside a frame ({len(dec.buf)} trailing byte(s))"))
                        return out
                else:
                    try:
                        outer = odec.feed(data)
                    except wire.WireError as exc:
                        out.append(Violation("undecodable-write", "noise", f"write #{i}: bad outer framing: {exc}"))
                        return out
                    if odec.buf:
                        out.append(Violation("partial-frame-write", "", f"write #{i} ends inside a noise frame"))
                        return out
                    if first:
                        # hello frame + handshake frame, consumed by the responder's handshake
                        first = False
                        if len(outer) != 2 or outer[0] != b"" or outer[1][:1] != b"\x00":
                            out.append(Violation("noise-hello", "", f"first write is not [empty hello frame, 0x00+handshake message]: {[len(o) for o in outer]}"))
                        continue
                    if pos + len(outer) > len(dev_rx):
                        break  # the device side had gone before these frames arrived
                    got = dev_rx[pos : pos + len(outer)]
                    pos += len(outer)
                    for (mtype, payload), o in zip(got, outer):
                        if len(o) != len(payload) + 4 + 16:
                            out.append(Violation("noise-frame-size", "", f"encrypted frame of {len(o)} bytes for a payload of {len(payload)}"))
                for mtype, payload in got:
                    name = t.by_id.get(mtype)
                    if op is None and (name is None or name not in client_types):
                        out.append(Violation("bad-direction-or-id", str(mtype), f"library-originated frame with type id {mtype} ({name}) which api.proto does not mark client/both-originated"))
                if want is not None and got != want:
                    k = next((j for j, (a, b) in enumerate(zip(got, want)) if a != b), min(len(got), len(want)))
                    what = "count" if len(got) != len(want) else ("type" if got[k][0] != want[k][0] else "payload")
                    out.append(Violation("batch-mismatch", what, f"write #{i}: decoded {[(a, len(b)) for a, b in got][:6]} but the batch was {[(a, len(b)) for a, b in want][:6]}"))
    return out


def gen_session_writes(rng: random.Random) -> dict:
    client: dict = {"addresses": ["10.0.0.5"], "keepalive": pick(rng, [0.5, 1.0, 20.0])}
    device: dict = {}
    gen_transport(rng, client, device, noise_p=0.5)
    noise = device.get("transport") == "noise"
    actors = [{"id": "a0", "at": {"t": 0.0}, "steps": [{"do": "connect", "login": rng.random() < 0.5}, {"do": "sleep", "d": 6.0}, {"do": "disconnect"}]}]
    for w in range(rng.randint(1, 3)):
        steps = []
        for _ in range(rng.randint(1, 6)):
            msgs = []
            for _ in range(pick(rng, [1, 1, 2, 3, 8, 20])):
                if not noise and rng.random() < 0.05:
                    # plaintext has no 16-bit length field: payloads beyond 64 KiB, each followed by messages of the same
                    # type whose lengths alias it modulo 2^16 / 2^14 / 2^7 (anything keyed or cached by a truncated
                    # length or by packed (type, length) bits gives itself away on the next frame)
                    which = pick(rng, BIG[:2])
                    big = pick(rng, [65535, 65536, 65537, 65536 + rng.randint(4, 300), 131072 + rng.randint(4, 300), 2097152 + rng.randint(0, 9)])
                    msgs.append(sized_msg(rng, big, which))
                    for m in rng.sample([65536, 16384, 128], rng.randint(1, 3)):
                        if big % m >= 4 and big >= m:
                            msgs.append(sized_msg(rng, big - (big // m) * m if rng.random() < 0.5 else big - m, which))
                elif noise and rng.random() < 0.01:
                    # beyond what a Noise frame can carry (16-bit length)
                    msgs.append(sized_msg(rng, pick(rng, [65516, 65517, 65536, 70000])))
                elif rng.random() < 0.35:
                    target = pick(rng, BOUNDARY) + pick(rng, [0, 0, 0, -1, 1])
                    if noise:
                        target = min(target, 65515)
                    msgs.append(sized_msg(rng, max(0, target)))
                elif rng.random() < 0.4:
                    # any client-originated message type of api.proto with random (also non-default) scalar fields
                    from .c12 import rand_fields

                    name = rng.choice(sorted(n for n in _table().client_types() if n not in ("HelloRequest", "ConnectRequest", "DisconnectRequest", "DisconnectResponse")))
                    msgs.append([name, rand_fields(rng, name)])
                else:
                    msgs.append(pick(rng, SMALL))
            if rng.random() < 0.1:
                # a batch the library must refuse as a whole: one message has no type id (a nested message type passed by
                # mistake); nothing of it may reach the wire and the cipher state must be untouched for the later sends
                msgs.insert(rng.randint(0, len(msgs)), ["HomeassistantServiceMap", {"key": "a", "value": "b"}])
            steps.append({"do": "send", "msgs": msgs})
            steps.append({"do": "sleep", "d": pick(rng, [0.0, 0.0, 0.01, 0.5, 1.0])})
        actors.append({"id": f"w{w}", "at": {"on": "state", "match": {"new": "CONNECTED"}, "delay": pick(rng, [0.0, 0.1, 0.5])}, "steps": steps})
    events = []
    for _ in range(rng.randint(0, 5)):
        events.append({"at": {"t": 0.2 + rng.random() * 5}, "do": "dev", "act": {"msgs": [pick(rng, [["PingRequest", {}], ["GetTimeRequest", {}], ["SensorStateResponse", {"key": 1}]])], "latency": 0.0}})
    if rng.random() < 0.2:
        events.append({"at": {"t": 3.0 + rng.random() * 2}, "do": "dev", "act": {"msgs": [["DisconnectRequest", {}]], "latency": 0.0}})
    if rng.random() < 0.35:
        # a slow peer: the socket accepts only part of a write / nothing for a while, the transport buffers (and, above its
        # high-water mark, tells the protocol to pause) - what the library hands over and in which order must not change
        for _ in range(rng.randint(1, 3)):
            at: dict = {"t": 0.3 + rng.random() * 4}
            if rng.random() < 0.5:
                # ... starting right at one of a writer's sends, with the sends that follow close behind: several batches
                # are handed to the transport while it still holds (part of) an earlier one
                w = actors[rng.randint(1, len(actors) - 1)]
                n_send = sum(1 for st in w["steps"] if st["do"] == "send")
                at = {"on": "op_start", "match": {"actor": w["id"], "do": "send"}, "nth": rng.randint(1, n_send)}
                for st in w["steps"]:
                    if st["do"] == "sleep":
                        st["d"] = pick(rng, [0.0, 0.0, 0.01])
            if rng.random() < 0.5:
                events.append({"at": at, "do": "fault", "kind": "tx_block", "d": pick(rng, [0.01, 0.2, 1.0]), "phase": "pre"})
            else:
                events.append({"at": at, "do": "fault", "kind": "tx_short", "n": pick(rng, [1, 3, 100, 4096]), "phase": "pre"})
    if rng.random() < 0.15:
        # for a moment the transport refuses every write (its peer is gone): the write that meets it fails and ends the
        # session; the application connects again - what the new session writes is its own batches and nothing else
        t_bad = 1.0 + rng.random() * 3
        events.append({"at": {"t": t_bad}, "do": "fault", "kind": "write_raises", "always": True, "exc": pick(rng, ["OSError", "RuntimeError"])})
        events.append({"at": {"t": t_bad + pick(rng, [0.2, 1.0])}, "do": "fault", "kind": "knob", "name": "write_raises_now", "value": False})
        again = [{"do": "connect", "login": rng.random() < 0.5}]
        for _ in range(rng.randint(1, 3)):
            again.append({"do": "send", "msgs": [pick(rng, SMALL) for _ in range(pick(rng, [1, 2, 5]))]})
        again += [{"do": "sleep", "d": 1.0}, {"do": "disconnect"}]
        actors.append({"id": "again", "at": {"t": 8.0}, "steps": again})
    return {
        "family": "session",
        "knobs": gen_knobs(rng),
        "client": client,
        "device": device,
        "net": {"cuts": gen_cuts(rng), "c2d_latency": 0.001, "d2c_latency": [0.001]},
        "actors": actors,
        "events": events,
        "end": 60.0,
    }


def gen_helper_writes(rng: random.Random, noise: bool | None = None) -> dict:
    t = _table()
    coin = rng.random() < 0.5
    noise = coin if noise is None else noise
    ids = list(t.by_id)
    steps: list[dict] = []
    dev: dict = {}
    att: dict = {"do": "fh.attach", "kind": "plaintext"}
    if noise:
        psk = base64.b64encode(bytes(rng.getrandbits(8) for _ in range(32))).decode()
        dev = {"transport": "noise", "psk": psk, "eph_seed": "%x" % rng.getrandbits(32)}
        att = {"do": "fh.attach", "kind": "noise", "psk": psk}
    steps.append(att)
    if rng.random() < 0.08:
        # a run of consecutive payload sizes (every off-by-one of a size table or guard in that range shows)
        lo = pick(rng, [0, 100, 200, 300, 16384 - 150, 65515 - 299])
        ty = rng.choice(ids)
        for k in range(lo, lo + 300, 20):
            steps.append({"do": "fh.write", "packets": [{"type": ty, "gen": [n, n]} for n in range(k, k + 20)]})
        return {"family": "framing", "knobs": gen_knobs(rng), "device": dev, "net": {"cuts": {"mode": "coalesce"}, "c2d_latency": 0.001}, "actors": [{"id": "a0", "at": {"t": 0.0}, "steps": steps}], "events": [], "end": 30.0}
    for _ in range(rng.randint(1, 8)):
        pk = []
        for _ in range(pick(rng, [1, 1, 2, 5, 20, 1, 1, 2, 5, 0])):  # (now and then an empty batch: an application's filtered list)
            ln = pick(rng, BOUNDARY)
            pk.append({"type": rng.choice(ids), "gen": [ln, rng.getrandbits(20)]})
        steps.append({"do": "fh.write", "packets": pk})
        if rng.random() < 0.5:
            steps.append({"do": "sleep", "d": pick(rng, [0.0, 0.01])})
    return {"family": "framing", "knobs": gen_knobs(rng), "device": dev, "net": {"cuts": {"mode": "coalesce"}, "c2d_latency": 0.001}, "actors": [{"id": "a0", "at": {"t": 0.0}, "steps": steps}], "events": [], "end": 30.0}


class C02(CheckBase):
    pid = "C02"
    level = "exploration"
    quick_cases = 3200
    thorough_cases = 32000

    def cases(self, rng: random.Random, tier: str, idx: int) -> Iterable[dict]:
        if idx % 400 == 9:
            # a long encrypted session: more frames than a 16-bit counter holds (the outbound nonce is a 64-bit counter)
            scn = gen_helper_writes(rng, noise=True)
            att = next(st for st in scn["actors"][0]["steps"] if st["do"] == "fh.attach")
            scn["actors"][0]["steps"] = [att] + [{"do": "fh.write", "packets": [{"type": pick(rng, [7, 8, 33]), "gen": [pick(rng, [0, 1, 2]), k]}], "repeat": 7400} for k in range(9)]
            scn["max_turns"] = 400000
            yield scn
        elif idx % 3 == 0:
            yield gen_helper_writes(rng)
        else:
            yield gen_session_writes(rng)

    def oracle(self, run: Any, scn: dict) -> list[Violation]:
        return wire_oracle(Index(run.history), scn)

    def note(self, run: Any, scn: dict, notes: Any) -> None:
        for ev in run.history:
            if ev[3] == "tr_write":
                notes["transport_writes"] += 1
            elif ev[3] == "dev_noise_frame":
                notes["noise_frames_decrypted_in_nonce_order"] += 1
            elif ev[3] == "dev_rx":
                notes["frames_decoded_by_device"] += 1


CHECK = C02()
