"""C03 - Noise sessions interoperate with any conformant responder, for any chunking."""
from __future__ import annotations

import base64
import random
from typing import Any, Iterable

from ..runner import CheckBase, Violation
from .c01 import C01
from .common import gen_knobs, pick
from .framing import delivered_equals_complete
from .hist import Index

NAMES = ["simdev", "simdeV", "simde", "other", "othex", "a", "living-room-node", "dév", "dev", "", "simdev "]


def edge_key(rng: random.Random) -> str:
    """A valid 32-byte key; in a fifth of the cases its first / last raw bytes are values that text handling likes to
    mangle (ASCII whitespace, NUL, 0xff, '=' and '/')."""
    raw = bytearray(rng.getrandbits(8) for _ in range(32))
    if rng.random() < 0.2:
        edge = [0x09, 0x0A, 0x0B, 0x0C, 0x0D, 0x20, 0x00, 0xFF, 0x3D, 0x2F]
        if rng.random() < 0.7:
            raw[0] = rng.choice(edge)
        if rng.random() < 0.7:
            raw[-1] = rng.choice(edge)
    return base64.b64encode(bytes(raw)).decode()


# seeds (for the first device connection, "c1") whose ephemeral X25519 public key starts with 0x00 / 0x00 0x00 or ends in 0x00:
# the key follows the status byte of the handshake frame directly, a one-in-256 coincidence per session otherwise
ZERO_EDGE_EPH = ["ce", "169", "1d8", "22a", "25f", "4c1", "14c7d", "25", "6f", "123"]


def eph_seed(rng: random.Random) -> str:
    r = "%x" % rng.getrandbits(32)
    return pick(rng, ZERO_EDGE_EPH) if rng.random() < 0.08 else r


def noise_ready_oracle(ix: Index, scn: dict) -> list[Violation]:
    out: list[Violation] = []
    # the key is valid base64 for exactly 32 bytes: building the helper / starting the session must not be refused
    for op in ix.ops:
        if op.do in ("fh.attach", "connect") and op.s1 is not None and not op.ok and "InvalidEncryptionKeyAPIError" in ((op.err or {}).get("mro") or []) and "alformed" in ((op.err or {}).get("text") or ""):
            out.append(Violation("valid-key-rejected", "", f"{op.do} refused a valid 32-byte key: {(op.err or {}).get('text')}"))
    exp = scn.get("expected_name")
    dev_name = scn["device"].get("noise_name", scn["device"].get("name", "simdev"))
    has_name = scn["device"].get("noise_hello_name", True)
    for cid, txs in ix.dev_tx.items():
        fd = ix.cid_fd.get(cid)
        conn = ix.fd_conn.get(fd) or (ix.conns[0] if ix.conns else None)
        hs = next((d for d in txs if d.get("kind") == "handshake"), None)
        name_bad = exp is not None and has_name and dev_name != exp
        # readiness
        ready = [ev for ev in ix.h if ev[3] == "fh_ready" and ev[4]["conn"] == conn]
        if not ready:
            ready = [ev for ev in ix.h if ev[3] == "state" and ev[4]["conn"] == conn and ev[4]["new"] == "HANDSHAKE_COMPLETE"]
            ready = [(ev[0], ev[1], ev[2], "fh_ready", {"ok": True, "err": None}) for ev in ready]
        # time at which the handshake frame's last byte was delivered
        t_hs = None
        if hs is not None:
            for seq, total in ix.recvs.get(fd, []):
                if total >= hs["end"]:
                    t_hs = seq
                    break
        if name_bad:
            errs = [ev for ev in ix.h if ev[3] == "fatal" and ev[4]["conn"] == conn]
            if not errs or "BadNameAPIError" not in errs[0][4]["err"]["mro"] or errs[0][4]["err"].get("received_name") != dev_name:
                out.append(Violation("name-check", "not-rejected", f"expected name {exp!r}, server hello announced {dev_name!r}: want BadNameAPIError carrying it, got {[e[4]['err']['cls'] for e in errs][:1]}"))
            if ready and ready[0][4]["ok"]:
                out.append(Violation("name-check", "ready-anyway", "readiness signalled although the announced name differs from the expected one"))
            continue
        ok_ready = [r for r in ready if r[4]["ok"]]
        if t_hs is None:
            if ok_ready:
                out.append(Violation("ready-early", "no-handshake", "readiness signalled although the handshake frame was never completely delivered"))
            continue
        if not ok_ready:
            errs = [ev[4]["err"]["cls"] for ev in ix.h if ev[3] == "fatal"]
            out.append(Violation("handshake-failed", str(errs[:1]), f"conformant responder, same key: handshake did not complete (fatal: {errs[:2]})"))
            continue
        if ok_ready[0][0] < t_hs:
            out.append(Violation("ready-early", "", "readiness signalled before the handshake frame's last byte was delivered"))
        # no packet and no client data frame before the handshake completed
        for seq, mtype, data, state, turn, t in ix.pp.get(conn, []):
            if seq < t_hs:
                out.append(Violation("packet-before-handshake", "", f"process_packet(type={mtype}) before the handshake completed"))
                break
        writes = ix.tr_writes.get(fd, [])
        for i, (seq, data, turn, t) in enumerate(writes):
            if i > 0 and seq < t_hs:
                out.append(Violation("write-before-handshake", "", f"transport.write #{i} before the handshake completed"))
                break
    return out


def helper_case(rng: random.Random, cuts: dict, base: dict | None = None) -> dict:
    tiny = cuts.get("mode") == "sizes" and min(cuts.get("sizes", [99])) < 16
    if base is None:
        psk = edge_key(rng)
        name = pick(rng, NAMES)
        has_name = rng.random() < 0.8
        exp = pick(rng, [None, None, name or None, name or None, pick(rng, NAMES[:9])])
        msgs = []
        for _ in range(rng.randint(0, 8)):
            ln = pick(rng, [0, 1, 5, 100, 127, 128, 1000] if tiny else [0, 1, 5, 100, 127, 128, 1000, 16384, 65000])
            msgs.append({"type": pick(rng, [1, 2, 26, 127, 128, 255, 256, 1000, 65535]), "payload_gen": [ln, rng.getrandbits(20)]})
        base = {
            "family": "framing",
            "knobs": gen_knobs(rng),
            "expected_name": exp,
            "device": {"transport": "noise", "psk": psk, "eph_seed": eph_seed(rng), "noise_name": name, "noise_hello_name": has_name, "on_handshake": [{"msgs": msgs[: len(msgs) // 2]}] if msgs and rng.random() < 0.6 else []},
            "net": {"d2c_latency": [0.0], "c2d_latency": pick(rng, [0.0, 0.001])},
            "actors": [{"id": "a0", "at": {"t": 0.0}, "steps": [{"do": "fh.attach", "kind": "noise", "psk": psk, "expected_name": exp}]}],
            "events": [],
            "end": 50.0,
            "max_turns": 200000,
            "_msgs": msgs,
        }
        if exp is not None and has_name and rng.random() < 0.12:
            # the announced name is the expected one plus bytes that are not valid UTF-8 (in front, inside, behind): another
            # name, however it is decoded for display
            e = exp.encode()
            k = rng.randrange(len(e) + 1)
            raw = e[:k] + pick(rng, [b"\xff", b"\xc3", b"\xe2\x82", b"\x80"]) + e[k:]
            base["device"]["noise_name_hex"] = raw.hex()
            base["device"]["noise_name"] = raw.decode("utf-8", errors="replace")  # (what the oracle expects to be reported)
        if rng.random() < 0.15:
            # a responder whose handshake message carries a payload (legal in Noise; the ESPHome firmware sends none)
            base["device"]["noise_hs_payload"] = bytes(rng.getrandbits(8) for _ in range(pick(rng, [1, 2, 16, 100]))).hex()
        rest = msgs[len(msgs) // 2 :] if base["device"]["on_handshake"] else msgs
        t = 0.5
        while rest:
            k = rng.randint(1, len(rest))
            base["events"].append({"at": {"t": t}, "do": "dev", "act": {"msgs": rest[:k], "latency": 0.0}})
            rest = rest[k:]
            t += pick(rng, [0.0, 0.01])
    scn = {k: v for k, v in base.items() if k != "_msgs"}
    scn = dict(scn)
    scn["net"] = dict(scn["net"])
    scn["net"]["cuts"] = cuts
    return scn


class C03(CheckBase):
    pid = "C03"
    level = "fault_enumeration"
    quick_cases = 640
    thorough_cases = 6400
    stub = CheckBase.stub + ["for the helper-level runs: the connection object (recording stand-in)"]
    rule_text = C01.rule_text

    def cases(self, rng: random.Random, tier: str, idx: int) -> Iterable[dict]:
        r = idx % 6
        if idx % 160 == 7:
            # a long session: more messages than a 16-bit counter holds (the inbound nonce is a 64-bit counter)
            base = helper_case(rng, {"mode": "coalesce"})
            base["device"]["on_handshake"] = []
            base["events"] = [{"at": {"t": 0.5 + 0.01 * k}, "do": "dev", "act": {"msgs": [{"type": pick(rng, [1, 26, 300]), "payload_gen": [pick(rng, [0, 1, 3]), k]}], "repeat": 8250, "latency": 0.0}} for k in range(8)]
            base["max_turns"] = 400000
            yield base
            return
        if r in (0, 1):
            # every single cut of the server hello + handshake bytes (and a little beyond)
            base = helper_case(rng, {"mode": "coalesce"})
            nm = base["device"]["noise_name"].encode() if base["device"]["noise_hello_name"] else b""
            hello_len = 3 + 1 + (len(nm) + 1 + 12 + 1 if base["device"]["noise_hello_name"] else 0)
            hs_len = 3 + 1 + 48 + len(base["device"].get("noise_hs_payload", "")) // 2
            for k in range(1, hello_len + hs_len + 12):
                yield helper_case(rng, {"mode": "at", "at": [k]}, base)
        elif r in (2, 3):
            sizes = [pick(rng, [1, 2, 3, 7, 20, 50, 128, 1000, 16384, 70000]) for _ in range(rng.randint(1, 5))]
            yield helper_case(rng, pick(rng, [{"mode": "sizes", "sizes": sizes}, {"mode": "sizes", "sizes": [1]}, {"mode": "sends"}, {"mode": "coalesce"}, {"mode": "sizes", "sizes": sizes, "gap": 0.001}]))
        else:
            # through the full client
            psk = edge_key(rng)
            name = pick(rng, NAMES)
            exp = pick(rng, [None, name or None, name or None, "other"])
            sizes = [pick(rng, [1, 2, 3, 7, 20, 50, 128, 1000]) for _ in range(rng.randint(1, 5))]
            msgs = [pick(rng, [["SensorStateResponse", {"key": 2, "state": 1.0}], ["CameraImageResponse", {"key": 1, "data": {"gen": [pick(rng, [10, 1000, 4000]), 5]}, "done": True}], ["SwitchStateResponse", {"key": 1, "state": True}]]) for _ in range(rng.randint(1, 8))]
            client = {"addresses": ["10.0.0.5"], "keepalive": 60.0, "noise_psk": psk}
            if exp is not None:
                client["expected_name"] = exp
            yield {
                "family": "session",
                "knobs": gen_knobs(rng),
                "expected_name": exp,
                "client": client,
                "device": {"transport": "noise", "psk": psk, "eph_seed": eph_seed(rng), "noise_name": name, "name": name, "hello": {"name": name}, **({"noise_hs_payload": "00" * pick(rng, [1, 7, 64])} if rng.random() < 0.1 else {})},
                "net": {"cuts": pick(rng, [{"mode": "sizes", "sizes": sizes}, {"mode": "coalesce"}, {"mode": "sizes", "sizes": [1]}]), "d2c_latency": [0.0, 0.001], "c2d_latency": pick(rng, [0.0, 0.001])},
                "actors": [{"id": "a0", "at": {"t": 0.0}, "steps": [{"do": "connect", "login": True}, {"do": "subscribe_states"}, {"do": "sleep", "d": 3.0}, {"do": "disconnect"}]}],
                "events": [{"at": {"t": 1.0}, "do": "dev", "act": {"msgs": msgs, "latency": 0.0}}],
                "end": 60.0,
                "max_turns": 200000,
            }

    def oracle(self, run: Any, scn: dict) -> list[Violation]:
        ix = Index(run.history)
        exp = scn.get("expected_name")
        dev_name = scn["device"].get("noise_name", scn["device"].get("name", "simdev"))
        if exp is not None and scn["device"].get("noise_hello_name", True) and dev_name != exp:
            out = noise_ready_oracle(ix, scn)
            if any(ix.pp.values()):
                out.append(Violation("delivered-after-bad-name", "", "a packet was delivered although the server name was rejected"))
            return out
        out = noise_ready_oracle(ix, scn) + delivered_equals_complete(ix)
        if scn["family"] == "framing" and not any(v.rule in ("handshake-failed", "name-check") for v in out):
            # helper-level runs: nobody closes anything and the responder is conformant - no fatal error, no exception
            for c, fl in ix.fatal.items():
                out.append(Violation("spurious-error", fl[0][1]["cls"], f"conformant encrypted stream reported fatal error {fl[0][1]['cls']}: {fl[0][1]['text']}"))
            if ix.loop_exceptions:
                out.append(Violation("spurious-error", "exception", f"exception escaped data_received: {ix.loop_exceptions[0][1]}"))
        return out

    distinct_key = C01.distinct_key


CHECK = C03()
