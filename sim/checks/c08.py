"""C08 - closing a connection releases everything and silences it (quiescence audit)."""
from __future__ import annotations

import random
from typing import Any, Iterable

from ..runner import CheckBase, Violation
from .common import make_rejecting, CAUSES, gen_session, pick, with_cause
from .hist import HARNESS_STEPS, INTERNAL_HANDLER_TYPES, Index

SWEEP_CAUSES = CAUSES


def release_oracle(ix: Index, notes: Any = None, slow_close: bool = False) -> list[Violation]:
    out: list[Violation] = []
    a = ix.audit
    if a is None:
        return out
    finals = {c: ix.final_state(c) for c in ix.conns}
    live = [c for c, s in finals.items() if s not in ("CLOSED", "INITIALIZED")]
    starting = [op for op in ix.open_ops if op.do in ("connect", "start", "conn.start")]
    if not live and not starting:
        for fd in a["open_socks"]:
            out.append(Violation("socket-open", ix.fd_conn.get(fd) and "owned" or "unowned", f"socket fd={fd} (opened for {ix.fd_conn.get(fd)}) still open after every connection closed"))
        for t in a["timers"]:
            out.append(Violation("timer-armed", t["cb"], f"loop timer {t['cb']} (when={t['when']}) still armed after every connection closed"))
        for t in a["tasks"]:
            if not t["actor"]:
                out.append(Violation("task-pending", t["coro"], f"task {t['coro']} still pending after every connection closed"))
        for aid, i, do in a["pending_ops"]:
            if do not in HARNESS_STEPS:
                out.append(Violation("op-blocked", do, f"{aid}[{i}] {do} never completed although every connection closed"))
        for fd in a.get("open_transports", []):
            out.append(Violation("transport-open", "", f"transport on fd={fd} not closing after every connection closed"))
    elif notes is not None:
        notes["unaudited_live_at_end"] += 1
    sub_conn: dict = {}
    for op in ix.ops:
        if op.do in ("subscribe_states", "subscribe_logs"):
            sub_conn[op.args.get("tag", op.actor)] = op.conn
    for c, T in ix.closed_seq.items():
        for fd in ix.conn_fds(c):
            # bytes handed to the transport before the close may still be flushed afterwards;
            # bytes handed over after the close must never reach the socket
            before = sum(len(data) for seq, data, turn, t in ix.tr_writes.get(fd, []) if seq < T)
            sent = 0
            for seq, n in ix.sends.get(fd, []):
                sent += n
                if seq > T and sent > before:
                    out.append(Violation("write-after-close", "", f"{c}: {sent - before} byte(s) written to the device after the connection closed"))
                    break
        for seq, mtype, data, state, turn, t in ix.pp.get(c, []):
            if seq > T and mtype in INTERNAL_HANDLER_TYPES:
                out.append(Violation("dispatch-after-close", f"type{mtype}", f"{c}: incoming message type {mtype} dispatched to its handler at turn {turn} after the connection closed"))
                break
        for seq, kind, d, turn, t in ix.cbs:
            if seq > T and sub_conn.get(d.get("tag")) == c:
                out.append(Violation("callback-after-close", kind, f"{c}: subscriber callback {kind} at turn {turn} after the connection closed"))
                break
    # no task stays blocked on a closed connection: whatever was running on it when it closed (connect phases included)
    # ends without any further virtual time passing (only event-loop turns), stalls aside
    stall = sum(d for _, d in ix.stalls)
    for op in ix.ops:
        c = op.conn
        if c is None or c not in ix.closed_seq or op.do in HARNESS_STEPS or slow_close:
            continue
        T = ix.closed_seq[c]
        if not (op.s0 < T and (op.s1 is None or T < op.s1)):
            continue
        tc = ix.closed_t[c]
        if op.s1 is None:
            end_t = ix.run_end[2] if ix.run_end else tc
            if end_t > tc + stall + 1e-9 and ix.run_end and ix.run_end[4].get("reason") != "cap":
                out.append(Violation("blocked-after-close", f"{op.do}:pending", f"{op.actor}[{op.i}] {op.do} was running on {c} when it closed at t={tc:.6f} and was still blocked at the end of the run (t={end_t:.6f})"))
        elif op.t1 > tc + stall + 1e-9:
            out.append(Violation("blocked-after-close", op.do, f"{op.actor}[{op.i}] {op.do} was running on {c} when it closed at t={tc:.6f} but returned only at t={op.t1:.6f}"))
    for seq, conn, timers, turn, t in ix.post_close_timers:
        T = ix.closed_seq.get(conn)
        # the timeout timer of a Bluetooth connect that was in flight when the connection closed is told apart from the
        # request timers of the connection (same callback name): one per such call
        n_ble = sum(1 for op in ix.ops if op.do == "ble.connect" and op.conn == conn and T is not None and op.s0 < T and (op.s1 is None or T < op.s1))
        first = True
        for tm in timers:
            name = tm["cb"].rsplit(".", 1)[-1]
            if name == "handle_timeout" and n_ble > 0:
                n_ble -= 1
                out.append(Violation("timer-armed-after-close", "handle_timeout:ble.connect", f"{conn}: the timeout timer of a bluetooth_device_connect() call (due in {tm['in']}s) still armed a few event-loop turns after the connection closed"))
                continue
            if first:
                first = False
                out.append(Violation("timer-armed-after-close", name, f"{conn}: library timer {tm['cb']} (due in {tm['in']}s) still armed a few event-loop turns after the connection closed"))
    for seq, d in ix.unclosed_transports:
        out.append(Violation("transport-unclosed", "", f"transport {d['tr']} garbage-collected without close()"))
    return out


def gen_c08_base(rng: random.Random) -> dict:
    base = gen_session(rng, long_p=0.25)
    if rng.random() < 0.6:
        # outstanding request-response calls the device never answers
        n = rng.randint(1, 3)
        steps = []
        base["device"].setdefault("replies", {})
        kinds = rng.sample(["device_info", "list_entities", "raw", "ble_connect"], k=min(n, 3))
        for k in kinds:
            if k == "device_info":
                base["device"]["replies"]["DeviceInfoRequest"] = ["silent"]
            elif k == "list_entities":
                base["device"]["replies"]["ListEntitiesRequest"] = [{"msgs": [["ListEntitiesSwitchResponse", {"key": 1}]]}]
        for j, k in enumerate(kinds):
            if k == "ble_connect":
                # a Bluetooth connect through the proxy that the device never reports back on
                base["device"]["replies"]["BluetoothDeviceRequest"] = ["silent"]
                st = {"do": "ble.connect", "address": 0xAABBCC000001 + j, "timeout": pick(rng, [5.0, 30.0]), "disconnect_timeout": pick(rng, [2.0, 20.0])}
            elif k == "raw":
                st = {"do": "request", "msgs": [["SubscribeLogsRequest", {}]], "types": ["SubscribeLogsResponse"], "stop": {"p": "never"}, "timeout": pick(rng, [3.0, 50.0])}
            else:
                st = {"do": k}
            base["actors"].append({"id": f"w{j}", "at": {"on": "state", "match": {"new": "CONNECTED"}, "delay": pick(rng, [0.0, 0.001])}, "steps": [st]})
        # remove the silenced request kinds from the main script (it would block the baseline)
        main = base["actors"][0]["steps"]
        base["actors"][0]["steps"] = [s for s in main if s["do"] not in kinds]
    return base


class C08(CheckBase):
    pid = "C08"
    level = "fault_enumeration"
    quick_cases = 96
    thorough_cases = 960

    def cases(self, rng: random.Random, tier: str, idx: int) -> Iterable[dict]:
        from ..engine import run_scenario

        base = gen_c08_base(rng)
        if idx % 4 == 3:
            # the library closes on its own verdict (name, version, password, key, framing); other causes fall around it
            make_rejecting(base, rng)
        if idx % 9 == 4:
            # an application bug: the stop callback raises (a plain function where a coroutine function is expected). Whatever
            # becomes of the exception, the connection's resources are gone by then
            for st in base["actors"][0]["steps"]:
                if st["do"] in ("connect", "start"):
                    st["stop_kind"] = "plain_raises"
        yield base
        T = run_scenario(base).turns
        causes = SWEEP_CAUSES if tier == "thorough" else rng.sample(SWEEP_CAUSES, 6)
        stride = 1 if (tier == "thorough" or T <= 45) else 2
        for n in range(1, T + 1, stride):
            for cause in causes:
                for phase in (["pre", "post"] if cause in ("force_disconnect", "disconnect", "cancel") else ["pre"]):
                    yield with_cause(base, cause, {"turn": n}, phase, rng)
        # the freshly connected socket fails an OS call of the connect phase, or every write on a closing transport raises
        import copy

        for kn in ({"sock_fail": "nodelay"}, {"sock_fail": "getpeername"}):
            v = copy.deepcopy(base)
            v.setdefault("knobs", {}).update(kn)
            yield v

    def oracle(self, run: Any, scn: dict) -> list[Violation]:
        return release_oracle(Index(run.history), slow_close=bool(scn.get("knobs", {}).get("zc_close_delay")))

    def note(self, run: Any, scn: dict, notes: Any) -> None:
        ix = Index(run.history)
        finals = [ix.final_state(c) for c in ix.conns]
        if any(s not in ("CLOSED", "INITIALIZED") for s in finals):
            notes["unaudited_live_at_end"] += 1
        else:
            notes["audited_all_closed"] += 1


CHECK = C08()
