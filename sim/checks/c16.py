"""C16 - Bluetooth operations are matched by address and handle and never cross-talk."""
from __future__ import annotations

import random
from typing import Any, Iterable

from ..runner import CheckBase, Violation
from .common import gen_cuts, gen_knobs, gen_transport, pick
from .hist import Index

A, B = 0xAABBCCDDEE01, 0xAABBCCDDEE02
ADDRS = [A, B]
HANDLES = [1, 2]
REPLY_HANDLES = [1, 2, 0, 1, 2]  # handle 0: how the proxy reports device-level failures (and a falsy value)
EPS = 1e-6

RESP = {"ble.read": "BluetoothGATTReadResponse", "ble.write": "BluetoothGATTWriteResponse", "ble.notify": "BluetoothGATTNotifyResponse"}
WATCH = {"ble.pair": "BluetoothDevicePairingResponse", "ble.unpair": "BluetoothDeviceUnpairingResponse", "ble.clear_cache": "BluetoothDeviceClearCacheResponse"}


def _msgs_after(ix: Index, conn: str, s0: int, s1: int | None):
    from ..engine import proto_table
    from ..env import lib

    pb = lib().pb
    t = proto_table()
    for seq, mtype, data, state, turn, tt in ix.pp.get(conn, []):
        if seq < s0:
            continue
        if s1 is not None and seq > s1:
            break
        name = t.by_id.get(mtype)
        if name is None or not name.startswith("Bluetooth"):
            continue
        m = getattr(pb, name)()
        try:
            m.ParseFromString(data)
        except Exception:
            return
        yield seq, turn, tt, name, m


def model_outcome(op: Any, ix: Index) -> tuple:
    """(kind, detail, decide_key) with kind in result|gatt_error|dropped|none."""
    a = op.args
    addr = a.get("address")
    h = a.get("handle")
    if op.do in RESP:
        for seq, turn, tt, name, m in _msgs_after(ix, op.conn, op.s0, op.s1):
            if name == "BluetoothDeviceConnectionResponse" and m.address == addr:
                return "dropped", None, (turn, seq, tt)
            if name == "BluetoothGATTErrorResponse" and m.address == addr and m.handle == h:
                return "gatt_error", m.error, (turn, seq, tt)
            if name == RESP[op.do] and m.address == addr and m.handle == h:
                return "result", bytes(m.data) if op.do == "ble.read" else None, (turn, seq, tt)
        return "none", None, None
    if op.do in WATCH:
        for seq, turn, tt, name, m in _msgs_after(ix, op.conn, op.s0, op.s1):
            if name == "BluetoothDeviceConnectionResponse" and m.address == addr:
                return "dropped", None, (turn, seq, tt)
            if name == WATCH[op.do] and m.address == addr:
                return "result", m.error, (turn, seq, tt)
        return "none", None, None
    if op.do == "ble.disconnect":
        for seq, turn, tt, name, m in _msgs_after(ix, op.conn, op.s0, op.s1):
            if name == "BluetoothDeviceConnectionResponse" and m.address == addr and not m.connected:
                return "result", None, (turn, seq, tt)
        return "none", None, None
    if op.do == "ble.services":
        svcs: list = []
        for seq, turn, tt, name, m in _msgs_after(ix, op.conn, op.s0, op.s1):
            if getattr(m, "address", None) != addr:
                continue
            if name == "BluetoothDeviceConnectionResponse":
                return "dropped", None, (turn, seq, tt)
            if name == "BluetoothGATTErrorResponse":
                return "gatt_error", m.error, (turn, seq, tt)
            if name == "BluetoothGATTGetServicesResponse":
                svcs += [s.handle for s in m.services]
            if name == "BluetoothGATTGetServicesDoneResponse":
                return "result", svcs, (turn, seq, tt)
        return "none", None, None
    if op.do == "ble.connect":
        for seq, turn, tt, name, m in _msgs_after(ix, op.conn, op.s0, op.s1):
            if name == "BluetoothDeviceConnectionResponse" and m.address == addr:
                return "result", None, (turn, seq, tt)
        return "none", None, None
    return "skip", None, None


def ble_oracle(ix: Index, scn: dict) -> list[Violation]:
    from .. import wire
    from ..engine import proto_table
    from ..env import lib

    out: list[Violation] = []
    pb = lib().pb
    table = proto_table()
    keep = 0  # subscriptions that may legitimately remain
    for op in ix.ops:
        if not op.do.startswith("ble.") or op.do in ("ble.notify_stop", "ble.unsub") or op.conn is None:
            continue
        if op.do == "ble.write" and not op.args.get("response", True):
            if op.s1 is not None and not op.ok and not (op.err or {}).get("api"):
                out.append(Violation("unclassified", op.do, f"write-without-response raised {op.err['cls']}"))
            continue
        kind, detail, key = model_outcome(op, ix)
        if kind == "skip":
            continue
        timeout = float(op.args.get("timeout", {"ble.notify": 10.0, "ble.disconnect": 20.0}.get(op.do, 30.0)))
        if op.do == "ble.services":
            timeout = 30.0
        deadline = op.t0 + timeout
        closed = ix.closed_seq.get(op.conn)
        if op.s1 is None:
            end_t = ix.run_end[2] if ix.run_end else 0.0
            if kind != "none" and (closed is None or key[1] < closed):
                out.append(Violation("never-completed", op.do, f"{op.actor} {op.do}({op.args.get('address'):#x},{op.args.get('handle')}) still pending although its reply was delivered at t={key[2]:.4f}"))
            elif end_t > deadline + 25.0:
                out.append(Violation("never-completed", op.do, f"{op.actor} {op.do} pending past its timeout"))
            continue
        end_turn = ix.seq_turn[op.s1]
        err = op.err or {}
        if op.cancelled:
            continue
        tie = key is not None and key[0] >= end_turn - 1 and not op.ok and err.get("cls") == "TimeoutAPIError"
        if op.ok:
            if kind != "result":
                out.append(Violation("completed-by-foreign", op.do, f"{op.actor} {op.do}({op.args.get('address'):#x},{op.args.get('handle')}) returned although the model says {kind} (no matching reply for its address/handle)"))
            else:
                if end_turn > key[0] + 1 and op.do != "ble.connect":
                    out.append(Violation("delayed", op.do, f"{op.actor} {op.do} completed at turn {end_turn}, its reply was delivered at turn {key[0]}"))
                if op.do == "ble.read" and op.value and bytes(op.value["data"]) != detail:
                    out.append(Violation("wrong-result", op.do, f"{op.actor} read returned {bytes(op.value['data'])!r}, the matching reply carried {detail!r}"))
                if op.do == "ble.services" and op.value and op.value["services"] != detail:
                    out.append(Violation("wrong-result", op.do, f"{op.actor} services {op.value['services']} != {detail}"))
            if op.do in ("ble.connect", "ble.notify"):
                keep += 1
            continue
        cls = err.get("cls")
        if cls == "TimeoutAPIError":
            if op.do == "ble.connect":
                # first a disconnect for that address, then the timeout error
                fds = ix.conn_fds(op.conn)
                t_first = deadline
                wrote = False
                if scn["device"].get("transport") != "noise":
                    for fd in fds:
                        dec = wire.PlainDecoder()
                        for seq, data, turn, tt in ix.tr_writes.get(fd, []):
                            try:
                                frames = dec.feed(data)
                            except wire.WireError:
                                break
                            for mtype, payload in frames:
                                if table.by_id.get(mtype) == "BluetoothDeviceRequest" and op.s0 < seq < op.s1 and abs(tt - deadline) < EPS:
                                    m = pb.BluetoothDeviceRequest()
                                    m.ParseFromString(payload)
                                    if m.address == op.args["address"] and m.request_type == 1:
                                        wrote = True
                    if not wrote and (closed is None or closed > op.s1):
                        out.append(Violation("connect-timeout-no-disconnect", "", f"{op.actor} device connect timed out at {deadline:.4f} but no disconnect request for {op.args['address']:#x} was written before TimeoutAPIError"))
                if op.t1 < deadline - EPS:
                    out.append(Violation("timeout-time", op.do, f"{op.actor} connect raised TimeoutAPIError at {op.t1:.6f}, before its timeout {deadline:.6f}"))
                if op.t1 > deadline + float(op.args.get("disconnect_timeout", 20.0)) + EPS:
                    out.append(Violation("timeout-time", op.do, f"{op.actor} connect raised TimeoutAPIError at {op.t1:.6f}, later than timeout+disconnect_timeout"))
                if kind == "result" and key[2] < deadline - 1e-9 and key[0] < ix.seq_turn[op.s1] - 1 and not tie:
                    # reply arrived before the timeout: must not time out
                    t_reply = key[2]
                    if t_reply < deadline - 1e-9:
                        out.append(Violation("timeout-despite-reply", op.do, f"{op.actor} connect timed out although a connection response for its address was delivered at {t_reply:.6f}"))
                continue
            if abs(op.t1 - deadline) > EPS * max(1.0, timeout):
                out.append(Violation("timeout-time", op.do, f"{op.actor} {op.do} timed out at {op.t1:.6f}, expected {deadline:.6f}"))
            # within one turn I/O callbacks run before due timers: a reply dispatched in the turn in which the timeout
            # timer fired (end_turn - 1) completed the operation first
            if kind != "none" and ((key[2] < deadline - 1e-9 and key[0] < end_turn - 1) or key[0] == end_turn - 1):
                out.append(Violation("timeout-despite-reply", op.do, f"{op.actor} {op.do}({op.args.get('address'):#x},{op.args.get('handle')}) timed out although its {kind} reply was delivered at {key[2]:.6f}"))
            continue
        if cls == "BluetoothGATTAPIError":
            if kind != "gatt_error":
                out.append(Violation("failed-by-foreign", op.do, f"{op.actor} {op.do}({op.args.get('address'):#x},{op.args.get('handle')}) raised a GATT error, model says {kind}"))
            continue
        if cls == "BluetoothConnectionDroppedError":
            if kind != "dropped":
                out.append(Violation("failed-by-foreign", op.do, f"{op.actor} {op.do}({op.args.get('address'):#x}) raised connection-dropped, model says {kind}"))
            continue
        if not err.get("api"):
            out.append(Violation("unclassified", f"{op.do}:{cls}", f"{op.actor} {op.do} raised {cls}: {err.get('text')}"))
            continue
        # other API error: only legitimate when the connection closed / was not usable
        if closed is None or closed > op.s1:
            wrote = any(op.s0 < seq < op.s1 for fd in ix.conn_fds(op.conn) for seq, *_ in ix.tr_writes.get(fd, []))
            if wrote:
                out.append(Violation("error-without-close", f"{op.do}:{cls}", f"{op.actor} {op.do} raised {cls}: {err.get('text')} while the connection was up"))
        elif kind in ("result", "gatt_error", "dropped") and key[0] < ix.seq_turn[closed] and key[2] < deadline - 1e-9:
            out.append(Violation("error-despite-reply", op.do, f"{op.actor} {op.do} failed with {cls} although its reply was delivered before the close"))
    # notify data / connection state callbacks only for their own address+handle
    subs_notify = {}
    subs_conn = {}
    for op in ix.ops:
        if op.do == "ble.notify":
            subs_notify[op.args.get("tag", op.actor)] = op
        if op.do == "ble.connect":
            subs_conn[op.args.get("tag", op.actor)] = op
    for seq, kind, d, turn, t in ix.cbs:
        if kind == "cb_notify":
            op = subs_notify.get(d["tag"])
            if op is None or d["handle"] != op.args["handle"]:
                out.append(Violation("notify-crosstalk", "", f"notify callback {d['tag']} received data for handle {d['handle']}"))
    # a notify callback only ever sees data the device sent for ITS address and handle (the callback gets the handle and the
    # data, not the address: compare with the data messages that were delivered for that key since the subscription began)
    from collections import Counter

    for tag, op in subs_notify.items():
        mine: Counter = Counter()
        for c in ix.conns:
            for seq, mtype, data, state, turn, t in ix.pp.get(c, []):
                if table.by_id.get(mtype) == "BluetoothGATTNotifyDataResponse" and seq > op.s0:
                    m = pb.BluetoothGATTNotifyDataResponse()
                    try:
                        m.ParseFromString(data)
                    except Exception:
                        continue
                    if m.address == op.args["address"] and m.handle == op.args["handle"]:
                        mine[bytes(m.data)] += 1
        got = Counter(bytes(x[2]["data"]) for x in ix.cbs if x[1] == "cb_notify" and x[2]["tag"] == tag)
        extra = got - mine
        if extra:
            out.append(Violation("notify-crosstalk", "foreign-key", f"notify callback {tag} (address {op.args['address']:#x}, handle {op.args['handle']}) received {sum(extra.values())} notification(s) the device never sent for that address and handle"))
    # every notify-data message for an active (address, handle) subscription is delivered once
    for tag, op in subs_notify.items():
        if not op.ok:
            got_after = [x for x in ix.cbs if x[1] == "cb_notify" and x[2]["tag"] == tag and op.s1 is not None and x[0] > op.s1]
            if got_after and not op.cancelled:
                out.append(Violation("subscription-left", "notify", f"notify callback {tag} still called after its start operation failed"))
            if got_after and op.cancelled:
                out.append(Violation("subscription-left", "notify-cancelled", f"notify callback {tag} still called after its start operation was cancelled"))
    # leak audit
    a = ix.audit
    if a is not None and not [p for p in a["pending_ops"] if p[2].startswith("ble.")]:
        unsubbed = sum(1 for op in ix.ops if op.do in ("ble.unsub", "ble.notify_stop") and op.ok and op.value not in ("no-subscription", "again"))
        for cinfo in a["conns"]:
            if cinfo["state"] != "CONNECTED":
                continue
            allowed = 3 + max(0, keep - unsubbed)
            if cinfo["handlers"] > allowed:
                out.append(Violation("subscription-left", "handlers", f"{cinfo['conn']}: {cinfo['handlers']} handlers registered after every operation finished, at most {allowed} are legitimate (3 internal + kept connect/notify subscriptions)"))
            if cinfo["waiters"]:
                out.append(Violation("subscription-left", "waiters", f"{cinfo['conn']}: {cinfo['waiters']} waiter(s) left"))
        for tm in a["timers"]:
            if "handle_timeout" in tm["cb"]:
                out.append(Violation("subscription-left", "timer", f"timeout timer still armed after every operation finished (when={tm['when']})"))
    return out


def reply_msgs(rng: random.Random, kind: str, addr: int, handle: int) -> list:
    if kind == "read":
        return [["BluetoothGATTReadResponse", {"address": addr, "handle": handle, "data": "%02x%02x" % (rng.getrandbits(8), rng.getrandbits(8))}]]
    if kind == "write":
        return [["BluetoothGATTWriteResponse", {"address": addr, "handle": handle}]]
    if kind == "notify":
        return [["BluetoothGATTNotifyResponse", {"address": addr, "handle": handle}]]
    if kind == "error":
        return [["BluetoothGATTErrorResponse", {"address": addr, "handle": handle, "error": pick(rng, [1, 133, 18, 0x28, 0x3B, 61, 0x50, 255, 0, 2**31 - 1])}]]  # incl. codes no description table lists
    if kind == "conn":
        return [["BluetoothDeviceConnectionResponse", {"address": addr, "connected": rng.random() < 0.5, "mtu": 23, "error": pick(rng, [0, 8, 0x3D, 18, 255, 2**31 - 1])}]]
    if kind == "disc":
        return [["BluetoothDeviceConnectionResponse", {"address": addr, "connected": False, "error": 0}]]
    if kind == "pair":
        return [["BluetoothDevicePairingResponse", {"address": addr, "paired": True}]]
    if kind == "unpair":
        return [["BluetoothDeviceUnpairingResponse", {"address": addr, "success": True}]]
    if kind == "clear":
        return [["BluetoothDeviceClearCacheResponse", {"address": addr, "success": True}]]
    if kind == "svc":
        return [["BluetoothGATTGetServicesResponse", {"address": addr, "services": [{"uuid": [1, 2], "handle": rng.randint(1, 50)}]}]]
    if kind == "svcdone":
        return [["BluetoothGATTGetServicesDoneResponse", {"address": addr}]]
    if kind == "data":
        return [["BluetoothGATTNotifyDataResponse", {"address": addr, "handle": handle, "data": "%06x" % rng.getrandbits(24)}]]
    raise ValueError(kind)


MATCH = {"ble.read": "read", "ble.write": "write", "ble.notify": "notify", "ble.pair": "pair", "ble.unpair": "unpair", "ble.clear_cache": "clear", "ble.disconnect": "disc", "ble.connect": "conn", "ble.services": "svcdone"}
ALLKINDS = ["read", "write", "notify", "error", "conn", "disc", "pair", "unpair", "clear", "svc", "svcdone", "data"]


def gen_c16(rng: random.Random) -> dict:
    client: dict = {"addresses": ["10.0.0.5"], "keepalive": 60.0}
    device: dict = {}
    gen_transport(rng, client, device, noise_p=0.2)
    actors = [{"id": "a0", "at": {"t": 0.0}, "steps": [{"do": "connect", "login": False}, {"do": "sleep", "d": 60.0}]}]
    events: list[dict] = []
    n = rng.randint(2, 6)
    ops = []
    for i in range(n):
        do = pick(rng, ["ble.read", "ble.read", "ble.write", "ble.notify", "ble.services", "ble.pair", "ble.unpair", "ble.clear_cache", "ble.connect", "ble.connect", "ble.disconnect"])
        addr, h = pick(rng, ADDRS), pick(rng, HANDLES)
        t0 = 1.0 + pick(rng, [0.0, 0.0, 0.1, 0.3, 1.0])
        st: dict = {"do": do, "address": addr}
        if do in ("ble.read", "ble.write", "ble.notify"):
            st["handle"] = h
        if do != "ble.services":
            st["timeout"] = pick(rng, [1.0, 2.0, 4.0])
        if do == "ble.connect":
            st["disconnect_timeout"] = pick(rng, [0.5, 2.0, 0.0])
            st["tag"] = f"w{i}"
        if do == "ble.notify":
            st["tag"] = f"w{i}"
        steps = [st]
        if do in ("ble.connect", "ble.notify") and rng.random() < 0.5:
            steps += [{"do": "sleep", "d": pick(rng, [0.5, 2.0])}, {"do": "ble.unsub", "tag": f"w{i}"} if do == "ble.connect" else {"do": "ble.notify_stop", "tag": f"w{i}", "remove_only": rng.random() < 0.4}]
            for _ in range(pick(rng, [0, 0, 1, 2])):
                # the returned unsubscribe / remove callables are idempotent: calling them again must not touch anyone else
                steps += [{"do": "sleep", "d": pick(rng, [0.0, 0.1, 0.5, 1.0])}, dict(steps[-1])]
        actors.append({"id": f"w{i}", "at": {"t": t0}, "steps": steps, "eager": rng.random() < 0.7})
        ops.append((f"w{i}", do, addr, h, t0, st.get("timeout", 30.0)))
    for _ in range(rng.randint(0, 12)):
        w, do, addr, h, t0, tmo = pick(rng, ops)
        r = rng.random()
        if r < 0.35:
            msgs = reply_msgs(rng, MATCH[do], addr, h)  # the matching reply
            if do == "ble.services":
                msgs = reply_msgs(rng, "svc", addr, h) * rng.randint(0, 2) + msgs
        elif r < 0.5:
            msgs = reply_msgs(rng, MATCH[do], B if addr == A else A, h)  # foreign address
        elif r < 0.6:
            msgs = reply_msgs(rng, MATCH[do], addr, 3 - h)  # foreign handle
        elif r < 0.7:
            msgs = reply_msgs(rng, "error", pick(rng, ADDRS), pick(rng, REPLY_HANDLES))
        elif r < 0.8:
            msgs = reply_msgs(rng, "conn", pick(rng, ADDRS), 0)
        else:
            msgs = reply_msgs(rng, pick(rng, ALLKINDS), pick(rng, ADDRS), pick(rng, REPLY_HANDLES))
        rr = rng.random()
        if rr < 0.25:
            trig = {"on": "op_start", "match": {"actor": w}}
        elif rr < 0.4:
            trig = {"t": t0 + tmo + pick(rng, [0.0, -1e-7, 1e-7, 0.1, 0.3])}
        else:
            trig = {"t": t0 + pick(rng, [0.0, 0.05, 0.3, 0.9, 1.5, 2.5, 3.5])}
        events.append({"at": trig, "do": "dev", "act": {"msgs": msgs, "latency": pick(rng, [0.0, 0.001])}})
    if rng.random() < 0.3:
        w, do, addr, h, t0, tmo = pick(rng, ops)
        cause = pick(rng, ["cancel", "cancel", "fin", "force_disconnect", "dev_disconnect"])
        trig = {"t": t0 + pick(rng, [0.0, 0.2, 0.9, tmo, tmo + 0.2])}
        if cause == "cancel":
            events.append({"at": trig, "do": "poke", "what": "cancel", "target": w, "phase": pick(rng, ["pre", "post"])})
        elif cause == "fin":
            events.append({"at": trig, "do": "fault", "kind": "fin", "latency": 0.0})
        elif cause == "force_disconnect":
            events.append({"at": trig, "do": "poke", "what": "force_disconnect", "phase": "pre"})
        else:
            events.append({"at": trig, "do": "dev", "act": {"msgs": [["DisconnectRequest", {}]], "latency": 0.0}})
    # notify data traffic
    for _ in range(rng.randint(0, 4)):
        events.append({"at": {"t": 1.0 + rng.random() * 6}, "do": "dev", "act": {"msgs": reply_msgs(rng, "data", pick(rng, ADDRS), pick(rng, HANDLES)), "latency": 0.0}})
    return {
        "family": "ble",
        "knobs": gen_knobs(rng),
        "client": client,
        "device": device,
        "net": {"cuts": gen_cuts(rng), "c2d_latency": pick(rng, [0.0, 0.001]), "d2c_latency": [pick(rng, [0.0, 0.001])]},
        "actors": actors,
        "events": events,
        "end": 100.0,
    }


class C16(CheckBase):
    pid = "C16"
    level = "exploration"
    quick_cases = 16000
    thorough_cases = 160000

    def cases(self, rng: random.Random, tier: str, idx: int) -> Iterable[dict]:
        yield gen_c16(rng)

    def oracle(self, run: Any, scn: dict) -> list[Violation]:
        return ble_oracle(Index(run.history), scn)

    def note(self, run: Any, scn: dict, notes: Any) -> None:
        ix = Index(run.history)
        for op in ix.ops:
            if op.do.startswith("ble.") and op.s1 is not None:
                if op.ok:
                    notes["ops_ok"] += 1
                elif op.cancelled:
                    notes["ops_cancelled"] += 1
                else:
                    notes["ops_" + (op.err or {}).get("cls", "?")] += 1


CHECK = C16()
