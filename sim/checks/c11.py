"""C11 - request-response calls get exactly their responses and leave nothing behind."""
from __future__ import annotations

import random
from typing import Any, Iterable

from ..runner import CheckBase, Violation
from .common import gen_cuts, gen_knobs, gen_transport, pick
from .hist import Index

RESP_TYPES = ["SensorStateResponse", "SwitchStateResponse", "BinarySensorStateResponse", "TextSensorStateResponse"]
FOREIGN = ["LightStateResponse", "NumberStateResponse"]
EPS = 1e-9


def _pred(spec: dict | None):
    if spec is None:
        return None
    p = spec["p"]
    if p == "always":
        return lambda name, msg: True
    if p == "never":
        return lambda name, msg: False
    if p == "type_is":
        return lambda name, msg: name == spec["name"]
    if p == "type_not":
        return lambda name, msg: name != spec["name"]
    if p == "key_eq":
        return lambda name, msg: getattr(msg, "key", None) == spec["key"]
    raise ValueError(p)


def reqresp_oracle(ix: Index, scn: dict) -> list[Violation]:
    from ..engine import proto_table
    from ..env import lib

    out: list[Violation] = []
    pb = lib().pb
    table = proto_table()
    cancel_turns = {}
    for seq, actor, i in ix.cancels:
        cancel_turns[(actor, i)] = ix.seq_turn[seq]
    for op in ix.ops:
        if op.do != "request" or op.conn is None:
            continue
        c = op.conn
        a = op.args
        types = set(a["types"])
        app = _pred(a.get("append"))
        stop = _pred(a.get("stop"))
        timeout = float(a.get("timeout", 10.0))
        # the request was written iff a transport write happened inside the op's first callback
        wrote = any(seq > op.s0 and (op.s1 is None or seq < op.s1) for fd in ix.conn_fds(c) for seq, *_ in ix.tr_writes.get(fd, []))
        expected: list = []
        stop_key = None
        for seq, mtype, data, state, turn, t in ix.pp.get(c, []):
            if seq < op.s0:
                continue
            if op.s1 is not None and seq > op.s1:
                break
            name = table.by_id.get(mtype)
            if name not in types:
                continue
            msg = getattr(pb, name)()
            try:
                msg.ParseFromString(data)
            except Exception:
                break  # undecodable payload closes the connection; judged by C12
            if app is None or app(name, msg):
                expected.append([name, bytes(data)])
            if stop is None or stop(name, msg):
                stop_key = (turn, seq, t)
                break
        t_deadline = op.t0 + timeout
        closed = ix.closed_seq.get(c)
        closed_turn = ix.seq_turn[closed] if closed is not None else None
        # a call outstanding when the connection closes fails with the connection's error then (one turn for the
        # waiter to resume), not at its own timeout later on
        if wrote and closed is not None and op.s0 < closed and (op.s1 is None or closed < op.s1) and not (stop_key is not None and stop_key[0] <= closed_turn):
            last_turn = ix.seq_turn[op.s1] if op.s1 is not None else (ix.run_end[1] if ix.run_end else closed_turn)
            if last_turn > closed_turn + 1 and not ((actor_i := (op.actor, op.i)) in cancel_turns and cancel_turns[actor_i] <= closed_turn + 1):
                out.append(Violation("not-failed-at-close", "pending" if op.s1 is None else str((op.err or {}).get("cls")), f"{op.actor} was outstanding when the connection closed at turn {closed_turn} but " + ("was still pending at the end of the run" if op.s1 is None else f"ended only at turn {last_turn} with {(op.err or {}).get('cls')}")))
        if op.s1 is None:
            end_t = ix.run_end[2] if ix.run_end else 0
            if end_t > t_deadline + 1e-6:
                out.append(Violation("never-completed", "", f"{op.actor} request still pending at t={end_t:.3f}, deadline was {t_deadline:.3f}"))
            continue
        end_turn = ix.seq_turn[op.s1]
        if op.ok and any(a_ == op.actor and i_ == op.i and op.s0 < sq < op.s1 for sq, a_, i_ in ix.cancels):
            # ... (result, timeout, cancellation, connection loss): a caller cancelled while its call was outstanding - the
            # task's cancel() took effect - ends cancelled, also when the stop message was dispatched a moment earlier
            out.append(Violation("cancel-swallowed", "", f"{op.actor} was cancelled while its call was outstanding, yet the call returned a result (turn {end_turn}) and its caller ran on"))
            continue
        if op.ok:
            got = [[n, bytes(p)] for n, p in (op.value or [])]
            if stop_key is None:
                out.append(Violation("result-without-stop", "", f"{op.actor} returned {len(got)} message(s) although no delivered message satisfied its stop predicate"))
            else:
                if got != expected:
                    out.append(Violation("wrong-responses", ("more" if len(got) > len(expected) else "fewer") if len(got) != len(expected) else "content", f"{op.actor} returned {[g[0] for g in got]} but the accepted messages delivered after its request were {[e[0] for e in expected]}"))
                if end_turn > stop_key[0] + 1:
                    out.append(Violation("late-completion", "", f"{op.actor} completed at turn {end_turn}, its stop message was delivered at turn {stop_key[0]}"))
            continue
        err = op.err or {}
        if op.cancelled:
            continue
        same_turn_ok = stop_key is not None and stop_key[0] >= end_turn - 1
        # an application subscriber that raises during the very delivery of the stop message ends that delivery (and, one
        # turn later, the session) before the handlers behind it ran: the call may have been one of them
        raised_in_stop = stop_key is not None and any(ev[3] == "cb_raise" and stop_key[1] < ev[0] and ev[1] == stop_key[0] for ev in ix.h)
        if err.get("cls") == "TimeoutAPIError":
            stall_d = sum(dd for sq, dd in ix.stalls if op.s0 < sq < op.s1)
            if (abs(op.t1 - t_deadline) > 1e-6 * max(1.0, timeout)) if not stall_d else not (t_deadline - 1e-6 <= op.t1 <= t_deadline + stall_d + 1e-6):
                out.append(Violation("timeout-time", "", f"{op.actor} timed out at t={op.t1:.9f}, expected exactly {t_deadline:.9f} (issued {op.t0:.9f} + {timeout})"))
            # within one turn I/O callbacks run before due timers: a stop message dispatched in the turn in which the
            # timeout timer fired (end_turn - 1) completed the call first, also when the loop was stalled past the deadline
            if stop_key is not None and stop_key[0] <= end_turn - 1 and not raised_in_stop:
                out.append(Violation("timeout-despite-response", "", f"{op.actor} timed out although its stop message was delivered at t={stop_key[2]:.6f} (turn {stop_key[0]}) before the deadline {t_deadline:.6f}"))
            continue
        if not wrote and not err.get("api"):
            out.append(Violation("send-error-class", str(err.get("cls")), f"{op.actor} failed to send with {err.get('cls')}"))
            continue
        if not wrote:
            continue  # refused at the send gate (not connected): C19's subject
        # failed with the connection's error: the connection must have closed, and no stop message before that
        if closed is None or closed > op.s1:
            out.append(Violation("error-without-close", str(err.get("cls")), f"{op.actor} raised {err.get('cls')}: {err.get('text')} while the connection was not closed"))
            continue
        if not err.get("api"):
            out.append(Violation("error-class", str(err.get("cls")), f"{op.actor} raised non-API {err.get('cls')} on connection loss"))
        # an application subscriber that raises during the very delivery of the stop message ends the session before the
        # handlers behind it ran: the call may have been one of them
        raised_in_delivery = stop_key is not None and any(ev[3] == "cb_raise" and stop_key[1] < ev[0] < closed and ev[1] == stop_key[0] for ev in ix.h)
        if stop_key is not None and stop_key[1] < closed and not raised_in_delivery:
            out.append(Violation("error-despite-response", "", f"{op.actor} failed with {err.get('cls')} although its stop message had been delivered at turn {stop_key[0]} before the close at turn {closed_turn}"))
    # nothing left behind, however the call ended: a few zero-time turns after each call ended, every request timeout
    # timer still armed belongs to a call that is still running
    for ev in ix.h:
        if ev[3] == "post_op_timers" and ev[4]["armed"] > ev[4]["running"]:
            op = next((o for o in ix.ops if o.actor == ev[4]["actor"] and o.i == ev[4]["i"]), None)
            how = "?" if op is None else ("result" if op.ok else ("cancelled" if op.cancelled else str((op.err or {}).get("cls"))))
            out.append(Violation("timer-left", f"after-{how}", f"{ev[4]['armed']} request timeout timer(s) armed but only {ev[4]['running']} call(s) running, right after {ev[4]['actor']} ended ({how})"))
            break
    for ev in ix.h:
        if ev[3] == "post_op_timers" and ev[4].get("waiters", 0) > ev[4]["running"]:
            op = next((o for o in ix.ops if o.actor == ev[4]["actor"] and o.i == ev[4]["i"]), None)
            how = "?" if op is None else ("result" if op.ok else ("cancelled" if op.cancelled else str((op.err or {}).get("cls"))))
            out.append(Violation("waiter-left", f"after-{how}", f"{ev[4]['waiters']} waiter(s) registered for connection loss but only {ev[4]['running']} call(s) running, right after {ev[4]['actor']} ended ({how})"))
            break
    # leak audit
    a = ix.audit
    if a is not None:
        pend = [p for p in a["pending_ops"] if p[2] == "request"]
        n_sub = sum(1 for op in ix.ops if op.do in ("subscribe_states", "subscribe_logs") and op.ok)
        for cinfo in a["conns"]:
            if pend:
                continue
            if cinfo["state"] in ("CONNECTED", "CLOSED") and cinfo["handlers"] > 3 + 22 * n_sub:
                out.append(Violation("handler-left", "", f"{cinfo['conn']}: {cinfo['handlers'] - 3} message handler(s) still registered after every call ended"))
            if cinfo["waiters"]:
                out.append(Violation("waiter-left", "", f"{cinfo['conn']}: {cinfo['waiters']} waiter future(s) still registered after every call ended"))
        if not pend:
            for t in a["timers"]:
                if "handle_timeout" in t["cb"]:
                    out.append(Violation("timer-left", t["cb"], f"request timeout timer still armed (when={t['when']}) after every call ended"))
    return out


def gen_c11(rng: random.Random) -> dict:
    client: dict = {"addresses": ["10.0.0.5"], "keepalive": pick(rng, [60.0, 60.0, 2.0])}
    device: dict = {}
    gen_transport(rng, client, device, noise_p=0.25)
    actors = [{"id": "a0", "at": {"t": 0.0}, "steps": [{"do": "connect", "login": rng.random() < 0.5}, {"do": "sleep", "d": 30.0}, {"do": "disconnect"}]}]
    events: list[dict] = []
    n = rng.randint(1, 5)
    T0 = 1.0
    calls = []
    for i in range(n):
        types = rng.sample(RESP_TYPES, rng.randint(1, 3))
        key = rng.randint(1, 3)
        app = pick(rng, [None, {"p": "key_eq", "key": key}, {"p": "type_is", "name": types[0]}, {"p": "never"}, {"p": "always"}])
        stop = pick(rng, [None, {"p": "key_eq", "key": key}, {"p": "key_eq", "key": key}, {"p": "type_is", "name": types[-1]}, {"p": "never"}])
        timeout = pick(rng, [0.5, 1.0, 3.0])
        t0 = T0 + pick(rng, [0.0, 0.0, 0.1, 0.25, 0.5, 1.0])
        st = {"do": "request", "msgs": [["CameraImageRequest", {"single": True}]], "types": types, "append": app, "stop": stop, "timeout": timeout}
        if app is None:
            st.pop("append")
        if stop is None:
            st.pop("stop")
        actors.append({"id": f"w{i}", "at": {"t": t0}, "steps": [st], "eager": rng.random() < 0.7})
        calls.append((f"w{i}", t0, timeout, types, key))
    # device stream
    m = rng.randint(0, 10)
    for _ in range(m):
        w, t0, timeout, types, key = pick(rng, calls)
        r = rng.random()
        if r < 0.3:
            trig = {"on": "op_start", "match": {"actor": w}}  # reply readable in the very next turn
        elif r < 0.45:
            trig = {"t": t0 + timeout + pick(rng, [0.0, 0.0, -1e-7, 1e-7, -0.001])}  # racing the timeout
        else:
            trig = {"t": t0 + pick(rng, [0.0, 0.05, 0.2, 0.4, 0.49, 0.75, 0.99, 1.5, 2.5])}
        msgs = []
        for _ in range(rng.randint(1, 3)):
            name = pick(rng, RESP_TYPES + FOREIGN[:1], [3, 3, 3, 3, 1]) if rng.random() < 0.5 else pick(rng, types)
            msgs.append([name, {"key": pick(rng, [key, key, 1, 2, 3])}])
        events.append({"at": trig, "do": "dev", "act": {"msgs": msgs, "latency": pick(rng, [0.0, 0.0, 0.001])}})
    # closes and cancels
    if rng.random() < 0.45:
        w, t0, timeout, types, key = pick(rng, calls)
        cause = pick(rng, ["fin", "rst", "etimedout", "eio", "force_disconnect", "dev_disconnect", "garbage", "cancel", "cancel"])
        trig = pick(rng, [{"t": t0 + pick(rng, [0.0, 0.1, 0.3, 0.49, timeout, timeout - 1e-7])}, {"on": "op_start", "match": {"actor": w}, "turns": pick(rng, [0, 1, 2])}])
        phase = pick(rng, ["pre", "post"])
        if cause in ("fin", "rst", "etimedout", "eio"):
            # (ETIMEDOUT surfaces as the builtin TimeoutError, which is also what asyncio's timeouts raise)
            events.append({"at": trig, "do": "fault", "kind": cause, "latency": 0.0})
        elif cause == "force_disconnect":
            events.append({"at": trig, "do": "poke", "what": "force_disconnect", "phase": phase})
        elif cause == "dev_disconnect":
            tail = [[pick(rng, types), {"key": key}]] if rng.random() < 0.5 else []
            head = [[pick(rng, types), {"key": key}]] if rng.random() < 0.5 else []
            events.append({"at": trig, "do": "dev", "act": {"msgs": head + [["DisconnectRequest", {}]] + tail, "latency": 0.0}})
        elif cause == "garbage":
            events.append({"at": trig, "do": "dev", "act": {"raw_hex": "ffffff" if "noise_psk" not in client else "0300aa", "latency": 0.0}})
        else:
            events.append({"at": trig, "do": "poke", "what": "cancel", "target": w, "phase": phase})
    if rng.random() < 0.2:
        # the event loop is blocked for a while (a slow callback elsewhere in the application): a timeout becomes overdue
        # while its reply is already readable - the reply, dispatched first, still wins
        for _ in range(rng.randint(1, 2)):
            w, t0, timeout, types, key = pick(rng, calls)
            events.append({"at": {"t": t0 + timeout - pick(rng, [0.3, 0.1, 0.01])}, "do": "fault", "kind": "stall", "d": pick(rng, [0.05, 0.2, 0.5, 1.5]), "phase": "pre"})
            if rng.random() < 0.7:
                events.append({"at": {"t": t0 + timeout - pick(rng, [0.25, 0.05, 0.005])}, "do": "dev", "act": {"msgs": [[pick(rng, types), {"key": key}]], "latency": 0.0}})
    if rng.random() < 0.3:
        # a plain subscriber on the calls' response types, unsubscribed (twice: the callable is idempotent) around the calls
        w, t0, timeout, types, key = pick(rng, calls)
        beh = [{"on_call": rng.randint(1, 2), "do": "raise"}] if rng.random() < 0.25 else []  # a buggy application callback
        ssteps = [{"do": "add_cb", "sid": "s0", "types": rng.sample(types, rng.randint(1, len(types))), "behaviors": beh}, {"do": "sleep", "d": pick(rng, [0.0, 0.05, 0.3] if not beh else [0.6, 1.5])}, {"do": "remove_cb", "sid": "s0"}]
        for _ in range(rng.randint(1, 2)):
            ssteps += [{"do": "sleep", "d": pick(rng, [0.0, 0.02, 0.1, 0.3, 0.6])}, {"do": "remove_cb", "sid": "s0"}]
        actors.append({"id": "s", "at": {"t": t0 - pick(rng, [0.4, 0.2, 0.05, 0.0])}, "steps": ssteps})
    return {
        "probe_ops": True,
        "family": "reqresp",
        "knobs": gen_knobs(rng),
        "client": client,
        "device": device,
        "net": {"cuts": gen_cuts(rng), "c2d_latency": pick(rng, [0.0, 0.001]), "d2c_latency": [pick(rng, [0.0, 0.001])]},
        "actors": actors,
        "events": events,
        "end": 100.0,
    }


class C11(CheckBase):
    pid = "C11"
    level = "exploration"
    quick_cases = 16000
    thorough_cases = 160000

    def cases(self, rng: random.Random, tier: str, idx: int) -> Iterable[dict]:
        yield gen_c11(rng)

    def oracle(self, run: Any, scn: dict) -> list[Violation]:
        return reqresp_oracle(Index(run.history), scn)

    def note(self, run: Any, scn: dict, notes: Any) -> None:
        ix = Index(run.history)
        for op in ix.ops:
            if op.do == "request":
                if op.s1 is None:
                    notes["calls_pending"] += 1
                elif op.ok:
                    notes["calls_result"] += 1
                    if len(op.value or []) > 1:
                        notes["calls_multi_message_result"] += 1
                elif op.cancelled:
                    notes["calls_cancelled"] += 1
                elif (op.err or {}).get("cls") == "TimeoutAPIError":
                    notes["calls_timeout"] += 1
                else:
                    notes["calls_conn_error"] += 1


CHECK = C11()
