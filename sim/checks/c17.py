"""C17 - one converted callback per subscribed message; camera images reassemble per key."""
from __future__ import annotations

import random
from typing import Any, Iterable

from ..runner import CheckBase, Violation
from .c12 import rand_fields
from .common import gen_cuts, gen_knobs, gen_transport, pick
from .hist import Index

# the harness' own table: wire state message -> model class name (written from the model definitions, not imported)
STATE_MODEL = {
    "AlarmControlPanelStateResponse": "AlarmControlPanelEntityState",
    "BinarySensorStateResponse": "BinarySensorState",
    "ClimateStateResponse": "ClimateState",
    "CoverStateResponse": "CoverState",
    "DateStateResponse": "DateState",
    "DateTimeStateResponse": "DateTimeState",
    "EventResponse": "Event",
    "FanStateResponse": "FanState",
    "LightStateResponse": "LightState",
    "LockStateResponse": "LockEntityState",
    "MediaPlayerStateResponse": "MediaPlayerEntityState",
    "NumberStateResponse": "NumberState",
    "SelectStateResponse": "SelectState",
    "SensorStateResponse": "SensorState",
    "SirenStateResponse": "SirenState",
    "SwitchStateResponse": "SwitchState",
    "TextSensorStateResponse": "TextSensorState",
    "TextStateResponse": "TextState",
    "TimeStateResponse": "TimeState",
    "UpdateStateResponse": "UpdateState",
    "ValveStateResponse": "ValveState",
}
OTHER = {
    "logs": "SubscribeLogsResponse",
    "service_calls": "HomeassistantServiceResponse",
    "ha_states": "SubscribeHomeAssistantStateResponse",
    "ble_adv": "BluetoothLEAdvertisementResponse",
    "ble_raw": "BluetoothLERawAdvertisementsResponse",
    "ble_free": "BluetoothConnectionsFreeResponse",
}


def value_mismatch(m: Any, fields: dict) -> tuple | None:
    """First scalar field of message m whose value differs from the model's field of the same name, or None."""
    for fd in m.DESCRIPTOR.fields:
        rep = fd.is_repeated if hasattr(fd, "is_repeated") else fd.label == fd.LABEL_REPEATED
        if rep or fd.type == fd.TYPE_MESSAGE or fd.name not in fields:
            continue
        v = getattr(m, fd.name)
        got = fields[fd.name]
        if fd.type == fd.TYPE_ENUM:
            if v not in [x.number for x in fd.enum_type.values]:
                continue  # a number the wire enum does not define: presented as unknown (C14's subject)
            if isinstance(got, dict) and "enum" in got:
                if got["enum"] != v:
                    return (fd.name, v, got)
            elif got != v:
                return (fd.name, v, got)
        elif fd.type in (fd.TYPE_FLOAT, fd.TYPE_DOUBLE):
            if isinstance(got, dict) or got is None:
                return (fd.name, v, got)
            if abs(float(got) - float(v)) > 1e-6 * max(1e-30, abs(float(v))):
                return (fd.name, v, got)
        elif fd.type == fd.TYPE_BYTES:
            if not (isinstance(got, dict) and got.get("bytes") == bytes(v).hex()) and got != bytes(v):
                return (fd.name, bytes(v), got)
        else:
            if got != v:
                return (fd.name, v, got)
    return None


def other_mismatch(kind: str, d: dict, m: Any) -> tuple | None:
    """First piece of content of message m that the recorded callback d of a non-state subscription does not carry."""
    if kind == "logs":
        pairs = [("message", bytes(m.message), d.get("message"))]
    elif kind == "service_calls":
        pairs = [("service", m.service, d.get("service")), ("is_event", bool(m.is_event), d.get("is_event"))]
        for fld in ("data", "data_template", "variables"):
            pairs.append((fld, {v.key: v.value for v in getattr(m, fld)}, d.get(fld)))
    elif kind == "ha_states":
        pairs = [("entity_id", m.entity_id, d.get("entity_id")), ("attribute", m.attribute, d.get("attribute"))]
    elif kind == "ble_free":
        pairs = [("free", m.free, d.get("free")), ("limit", m.limit, d.get("limit"))]
    elif kind == "ble_adv":
        pairs = [("address", m.address, d.get("address")), ("rssi", m.rssi, d.get("rssi"))]
        pairs.append(("service_uuids", len(m.service_uuids), len(d.get("service_uuids", ()))))
        pairs.append(("service_data", len({v.uuid for v in m.service_data}), len(d.get("service_data", ()))))
        pairs.append(("manufacturer_data", sorted(int(v.uuid, 16) for v in {v.uuid: v for v in m.manufacturer_data}.values()), sorted(d.get("manufacturer_data", ()))))
    elif kind == "ble_raw":
        pairs = [("advertisements", len(m.advertisements), d.get("n"))]
    else:
        pairs = []
    for name, want, got in pairs:
        if want != got:
            return (name, want, got)
    return None


def subs_oracle(ix: Index, scn: dict) -> list[Violation]:
    from ..engine import proto_table
    from ..env import lib

    out: list[Violation] = []
    pb = lib().pb
    table = proto_table()
    conn = ix.conns[0] if ix.conns else None
    if conn is None:
        return out
    closed = ix.closed_seq.get(conn)
    # subscription intervals
    subs = []
    for op in ix.ops:
        if op.do == "sub" and op.ok:
            subs.append({"tag": op.args.get("tag", op.actor), "kind": op.args["kind"], "from": op.s1, "to": None, "args": op.args, "unsub_start": None})
    for op in ix.ops:
        if op.do == "unsub" and op.s1 is not None and op.value != "no-subscription":
            for s in subs:
                if s["tag"] == op.args["tag"] and s["to"] is None:
                    s["to"] = op.s1
                    s["unsub_start"] = op.s0
    msgs = []
    for seq, mtype, data, state, turn, t in ix.pp.get(conn, []):
        name = table.by_id.get(mtype)
        if name is None or state != "CONNECTED":
            continue
        m = getattr(pb, name)()
        try:
            m.ParseFromString(data)
        except Exception:
            break
        msgs.append((seq, turn, t, name, m))

    def active(s: dict, seq: int) -> bool:
        return s["from"] < seq and (s["unsub_start"] is None or seq < s["unsub_start"]) and (closed is None or seq < closed)

    def ambiguous(s: dict, seq: int) -> bool:
        return s["unsub_start"] is not None and s["unsub_start"] <= seq <= s["to"]

    cbs_by_tag: dict = {}
    for seq, kind, d, turn, t in ix.cbs:
        cbs_by_tag.setdefault(d.get("tag"), []).append((seq, kind, d))
    for s in subs:
        tag, kind = s["tag"], s["kind"]
        got = cbs_by_tag.get(tag, [])
        # nothing after the unsubscribe function returned
        if s["to"] is not None:
            late = [g for g in got if g[0] > s["to"] and g[1] not in ("cb_va_start_done", "cb_va_start_cancelled")]
            if late:
                out.append(Violation("delivery-after-unsubscribe", kind, f"{tag} ({kind}) received {late[0][1]} after its unsubscribe function had returned"))
            # a start handler still running when the unsubscribe function returns is ended there (cancelled), whether the
            # session is still up or not: it does not run on to answer a request nobody is subscribed to any more
            survived = [g for g in got if g[1] == "cb_va_start_done" and g[0] > s["to"]]
            # (only the handler of the latest start request is tracked by the subscription - an older one that a newer request
            # overtook runs on unowned; judged only when exactly one handler was in flight)
            starts_before = [g for g in got if g[1] == "cb_va_start" and g[0] < s["unsub_start"]]
            latest = starts_before[-1] if starts_before else None
            lcid = latest[2].get("conversation_id") if latest else None
            unique = latest is not None and sum(1 for g in starts_before if g[2].get("conversation_id") == lcid) == 1
            ended = latest is not None and any(g[1] in ("cb_va_start_done", "cb_va_start_cancelled") and g[2].get("conversation_id") == lcid and latest[0] < g[0] < s["unsub_start"] for g in got)
            survived = [g for g in survived if g[2].get("conversation_id") == lcid]
            if survived and unique and not ended:
                out.append(Violation("voice-start-survived-unsubscribe", "", f"{tag}: a start handler that was running when the unsubscribe function returned ran to completion afterwards (port {survived[0][2].get('port')})"))
        if kind == "states":
            want = []
            want_msgs: list = []
            streams: dict = {}
            for seq, turn, t, name, m in msgs:
                if not active(s, seq):
                    continue
                if name in STATE_MODEL:
                    want.append((STATE_MODEL[name], m.key, None))
                    want_msgs.append(m)
                elif name == "CameraImageResponse":
                    streams.setdefault(m.key, []).append(bytes(m.data))
                    if m.done:
                        want.append(("CameraState", m.key, b"".join(streams.pop(m.key))))
                        want_msgs.append(None)
            have = [(d["cls"], d["key"], d.get("data")) for seq, k, d in got if k == "cb_state"]
            if have == want:
                # ... carrying that message's values: every scalar field of the message that the model exposes under the
                # same name has the same value (enums by number, single-precision floats to 7 significant digits)
                flds = [d.get("fields") for seq, k, d in got if k == "cb_state"]
                for (mcls, _k, _d), m, f in zip(want, want_msgs, flds):
                    if m is None or f is None:
                        continue
                    bad = value_mismatch(m, f)
                    if bad is not None:
                        out.append(Violation("state-values", f"{mcls}.{bad[0]}", f"{tag}: {type(m).__name__}.{bad[0]} = {bad[1]!r} arrived, the {mcls} model handed to the callback carries {bad[2]!r}"))
                        break
            if have != want:
                i = next((j for j, (x, y) in enumerate(zip(have, want)) if x != y), min(len(have), len(want)))
                if len(have) != len(want) and have[: min(len(have), len(want))] == want[: min(len(have), len(want))]:
                    rule, disc = "state-callback-count", ("more" if len(have) > len(want) else "fewer")
                elif i < len(have) and i < len(want) and have[i][0] == "CameraState" and want[i][0] == "CameraState":
                    rule, disc = "camera-reassembly", ""
                else:
                    rule, disc = "state-callback-mismatch", ""
                out.append(Violation(rule, disc, f"{tag}: callback #{i} is {have[i][:2] if i < len(have) else None}, expected {want[i][:2] if i < len(want) else None} ({len(have)} callbacks, {len(want)} expected)"))
        elif kind in OTHER:
            wname = OTHER[kind]
            want_n = 0
            want_detail = []
            for seq, turn, t, name, m in msgs:
                if name == wname and active(s, seq):
                    want_n += 1
                    if kind == "ha_states":
                        want_detail.append("cb_ha_request" if (m.once and s["args"].get("with_request", True)) else "cb_ha_sub")
            amb = sum(1 for seq, turn, t, name, m in msgs if name == wname and ambiguous(s, seq))
            have = [g for g in got if g[1] in ("cb_log", "cb_service", "cb_ha_sub", "cb_ha_request", "cb_adv", "cb_raw_adv", "cb_free")]
            if not (want_n <= len(have) <= want_n + amb):
                out.append(Violation("callback-count", kind, f"{tag} ({kind}): {len(have)} callbacks for {want_n} subscribed {wname} message(s)"))
            elif not amb and len(have) == want_n:
                # ... once per message: callback #i is about message #i - what it carries is that message's content, whatever
                # a consumer did to the model of an earlier delivery
                wmsgs = [m for seq, turn, t, name, m in msgs if name == wname and active(s, seq)]
                for i, (g, m) in enumerate(zip(have, wmsgs)):
                    bad = other_mismatch(kind, g[2], m)
                    if bad is not None:
                        out.append(Violation("callback-values", f"{kind}.{bad[0]}", f"{tag} ({kind}): callback #{i} carries {bad[0]} = {bad[2]!r}, its {wname} message has {bad[1]!r}"))
                        break
            elif kind == "ha_states" and not amb and [g[1] for g in have] != want_detail:
                out.append(Violation("ha-state-routing", "", f"{tag}: callbacks {[g[1] for g in have]} expected {want_detail}"))
        elif kind == "voice":
            starts = [g for g in got if g[1] == "cb_va_start"]
            want_starts = [(seq, m) for seq, turn, t, name, m in msgs if name == "VoiceAssistantRequest" and m.start and active(s, seq)]
            if len(starts) != len(want_starts):
                out.append(Violation("callback-count", "voice-start", f"{tag}: handle_start called {len(starts)}x for {len(want_starts)} start request(s)"))
            stops = [g[2]["abort"] for g in got if g[1] == "cb_va_stop"]
            want_stops = []
            for seq, turn, t, name, m in msgs:
                if not active(s, seq):
                    continue
                if name == "VoiceAssistantRequest" and not m.start:
                    want_stops.append(True)
                elif name == "VoiceAssistantAudio" and m.end and s["args"].get("audio", True):
                    want_stops.append(False)
            if stops != want_stops:
                out.append(Violation("callback-count", "voice-stop", f"{tag}: handle_stop calls {stops}, expected {want_stops}"))
            audio = [g[2]["data"] for g in got if g[1] == "cb_va_audio"]
            want_audio = [bytes(m.data) for seq, turn, t, name, m in msgs if name == "VoiceAssistantAudio" and not m.end and active(s, seq)] if s["args"].get("audio", True) else []
            if audio != want_audio:
                out.append(Violation("callback-count", "voice-audio", f"{tag}: {len(audio)} audio callbacks, expected {len(want_audio)}"))
            # handlers are entered in the order their messages arrived, whatever their kind (a stop that preceded the next
            # start is handled before it, also when both came in one read)
            entered = [g[1] for g in got if g[1] in ("cb_va_start", "cb_va_stop", "cb_va_audio", "cb_va_announce")]
            want_order = []
            for seq, turn, t, name, m in msgs:
                if not active(s, seq):
                    continue
                if name == "VoiceAssistantRequest":
                    want_order.append("cb_va_start" if m.start else "cb_va_stop")
                elif name == "VoiceAssistantAudio" and s["args"].get("audio", True):
                    want_order.append("cb_va_stop" if m.end else "cb_va_audio")
                elif name == "VoiceAssistantAnnounceFinished" and s["args"].get("announce", True):
                    want_order.append("cb_va_announce")
            if sorted(entered) == sorted(want_order) and entered != want_order:
                k = next(j for j, (a, b) in enumerate(zip(entered, want_order)) if a != b)
                out.append(Violation("voice-order", "", f"{tag}: voice handlers entered as {entered[max(0, k - 2): k + 3]} but the messages arrived as {want_order[max(0, k - 2): k + 3]} (position {k})"))
            # each finished start is answered with the port (or an error response)
            done = [g for g in got if g[1] == "cb_va_start_done"]
            resp = []
            for ev in ix.h:
                if ev[3] == "dev_rx" and ev[4]["name"] == "VoiceAssistantResponse":
                    m = pb.VoiceAssistantResponse()
                    m.ParseFromString(ev[4]["payload"])
                    resp.append((m.port, m.error))
            want_resp = []
            for seq, k, d in done:
                if closed is not None and seq > closed:
                    continue
                if s["to"] is not None and seq > s["unsub_start"]:
                    continue
                want_resp.append((d["port"], False) if d["port"] is not None else (0, True))
            dev_gone = any(ev[3] == "dev_conn_end" for ev in ix.h)
            if resp[: len(want_resp)] != want_resp and not (dev_gone and resp == want_resp[: len(resp)]):
                out.append(Violation("voice-response", "", f"{tag}: start handlers returned {[d[2]['port'] for d in done]}, device received responses {resp} (want {want_resp})"))
            elif len(resp) > len(done):
                out.append(Violation("voice-response", "extra", f"{tag}: {len(resp)} VoiceAssistantResponse(s) for {len(done)} finished start handler(s)"))
    return out


def gen_c17(rng: random.Random) -> dict:
    client: dict = {"addresses": ["10.0.0.5"], "keepalive": 60.0}
    device: dict = {"replies": {"SubscribeStatesRequest": ["silent"]}}
    gen_transport(rng, client, device, noise_p=0.2)
    kinds = rng.sample(["states", "states", "logs", "service_calls", "ha_states", "ble_adv", "ble_raw", "ble_free", "voice"], rng.randint(1, 5))
    actors = [{"id": "a0", "at": {"t": 0.0}, "steps": [{"do": "connect", "login": False}, {"do": "sleep", "d": 30.0}, {"do": "disconnect"}]}]
    for i, k in enumerate(kinds):
        st: dict = {"do": "sub", "kind": k, "tag": f"s{i}"}
        if k == "voice":
            st["start_plan"] = [pick(rng, [{"port": 6055, "delay": 0.0}, {"port": 7000, "delay": 0.2}, {"port": None, "delay": 0.0}, {"port": None, "delay": 0.1}, {"port": 1, "delay": 1.5}, {"port": 0, "delay": 0.0}]) for _ in range(3)]
            st["audio"] = rng.random() < 0.8
            st["announce"] = rng.random() < 0.8
        if k == "ha_states":
            st["with_request"] = rng.random() < 0.7
        steps = [{"do": "sleep", "d": pick(rng, [0.0, 0.2, 1.0])}, st]
        if k in ("ble_adv", "ble_raw", "ble_free", "voice") and rng.random() < 0.6:
            steps += [{"do": "sleep", "d": pick(rng, [0.5, 1.0, 2.0, 3.0])}, {"do": "unsub", "tag": f"s{i}"}]
        actors.append({"id": f"s{i}", "at": {"on": "state", "match": {"new": "CONNECTED"}}, "steps": steps})
    events = []
    cam_keys = rng.sample([1, 2, 3, 4], rng.randint(1, 3))
    if kinds.count("states") == 1 and rng.random() < 0.15:
        # the state consumer raises on a completed image of one camera: that ends the session - were it to survive, the next
        # image of that camera would have to be its own chunks only
        for a in actors:
            for st_ in a["steps"]:
                if st_.get("do") == "sub" and st_.get("kind") == "states":
                    st_["raise_on_camera_keys"] = [cam_keys[0]]
    state_names = list(STATE_MODEL)
    for _ in range(rng.randint(3, 14)):
        msgs: list = []
        for _ in range(rng.randint(1, 5)):
            r = rng.random()
            if r < 0.35:
                n = pick(rng, state_names)
                f = rand_fields(rng, n)
                f["key"] = rng.randint(1, 5)
                msgs.append([n, f])
            elif r < 0.6:
                msgs.append(["CameraImageResponse", {"key": pick(rng, cam_keys), "data": "%02x" % rng.getrandbits(8) * pick(rng, [0, 1, 2, 3, 4, 4, 64, 65, 300]), "done": rng.random() < 0.35}])
            elif r < 0.8:
                n = pick(rng, list(OTHER.values()))
                f = rand_fields(rng, n)
                if n == "BluetoothLERawAdvertisementsResponse":
                    f = {"advertisements": [{"address": 5, "rssi": -60, "data": "0201"}] * rng.randint(0, 2)}
                elif n == "HomeassistantServiceResponse":
                    # most calls fill only some of the three maps; the consumer keeps (and edits) what it is handed
                    for fld in ("data", "data_template", "variables"):
                        if rng.random() < 0.5:
                            f[fld] = [{"key": pick(rng, ["entity_id", "brightness", "level", "rendered"]), "value": pick(rng, ["", "light.x", "{{ level }}", "7"])} for _ in range(rng.randint(1, 2))]
                elif n == "BluetoothLEAdvertisementResponse":
                    if rng.random() < 0.5:
                        f["service_uuids"] = [pick(rng, ["0x180F", "0000fe9f-0000-1000-8000-00805f9b34fb", "0xFEAA"]) for _ in range(rng.randint(1, 2))]
                    if rng.random() < 0.4:
                        legacy = rng.random() < 0.3
                        f["service_data"] = [{"uuid": pick(rng, ["0x180F", "0xFEAA"]), **({"legacy_data": [1, 2, 300 % 256]} if legacy else {"data": "0a0b"})} for _ in range(rng.randint(1, 2))]
                    if rng.random() < 0.4:
                        legacy = rng.random() < 0.3
                        f["manufacturer_data"] = [{"uuid": pick(rng, ["0x004C", "0x0006"]), **({"legacy_data": [9, 8]} if legacy else {"data": "ff01"})} for _ in range(rng.randint(1, 2))]
                msgs.append([n, f])
            else:
                n = pick(rng, ["VoiceAssistantRequest", "VoiceAssistantRequest", "VoiceAssistantAudio", "VoiceAssistantAnnounceFinished"])
                if n == "VoiceAssistantRequest":
                    f = {"start": rng.random() < 0.7, "conversation_id": "c%d" % rng.randint(1, 9), "flags": rng.randint(0, 3), "wake_word_phrase": pick(rng, ["", "ok nabu"])}
                elif n == "VoiceAssistantAudio":
                    f = {"data": "%02x" % rng.getrandbits(8) * pick(rng, [1, 1, 2, 64, 65, 1024]), "end": rng.random() < 0.3}
                else:
                    f = {"success": rng.random() < 0.5}
                msgs.append([n, f])
        events.append({"at": {"t": 0.3 + rng.random() * 6.0}, "do": "dev", "act": {"msgs": msgs, "latency": pick(rng, [0.0, 0.001])}})
    if rng.random() < 0.2:
        events.append({"at": {"t": 2.0 + rng.random() * 4}, "do": "fault", "kind": pick(rng, ["fin", "rst"]), "latency": 0.0})
    return {
        "family": "subscribe",
        "knobs": gen_knobs(rng),
        "client": client,
        "device": device,
        "net": {"cuts": gen_cuts(rng), "c2d_latency": 0.001, "d2c_latency": [pick(rng, [0.0, 0.001])]},
        "actors": actors,
        "events": events,
        "end": 100.0,
    }


class C17(CheckBase):
    pid = "C17"
    level = "exploration"
    quick_cases = 12000
    thorough_cases = 120000

    def cases(self, rng: random.Random, tier: str, idx: int) -> Iterable[dict]:
        yield gen_c17(rng)

    def oracle(self, run: Any, scn: dict) -> list[Violation]:
        return subs_oracle(Index(run.history), scn)

    def note(self, run: Any, scn: dict, notes: Any) -> None:
        for ev in run.history:
            if ev[3].startswith("cb_"):
                notes[ev[3]] += 1
                if ev[3] == "cb_state" and ev[4]["cls"] == "CameraState":
                    notes["camera_images_completed"] += 1


CHECK = C17()
