"""C01 - plaintext stream reassembly is lossless and independent of TCP segmentation."""
from __future__ import annotations

import random
from typing import Any, Iterable

from .. import wire
from ..runner import CheckBase, Violation
from .common import gen_knobs, pick
from .framing import delivered_equals_complete
from .hist import Index

TYPE_IDS = [0, 1, 2, 26, 127, 128, 129, 255, 300, 16383, 16384, 2**21 - 1, 2**21, 2**28, 2**32, 2**35 + 7]
LENS = [0, 0, 1, 2, 5, 30, 126, 127, 128, 129, 300, 1000, 16383, 16384, 16385, 40000, 70000]


def gen_frames(rng: random.Random, short: bool) -> list[dict]:
    n = rng.randint(1, 4) if short else rng.randint(1, 12)
    frames = []
    for k in range(n):
        ln = pick(rng, LENS[:9]) if short else pick(rng, LENS)
        frames.append({"type": pick(rng, TYPE_IDS), "payload_gen": [ln, rng.getrandbits(24)]})
    return frames


def stream_len(frames: list[dict]) -> int:
    return sum(len(wire.plain_frame(f["type"], b"\x00" * f["payload_gen"][0])) for f in frames)


def header_offsets(frames: list[dict]) -> list[int]:
    """Offsets inside / right after each frame header (varints) and around payload ends."""
    offs = []
    pos = 0
    for f in frames:
        ln = f["payload_gen"][0]
        hdr = 1 + len(wire.enc_varuint(ln)) + len(wire.enc_varuint(f["type"]))
        for k in range(1, hdr + 2):
            offs.append(pos + k)
        offs += [pos + hdr + ln - 1, pos + hdr + ln, pos + hdr + ln + 1]
        pos += hdr + ln
    return sorted(set(o for o in offs if 0 < o < pos))


def helper_scn(rng: random.Random, frames: list[dict], cuts: dict, bursts: list[list[int]] | None = None, knobs: dict | None = None) -> dict:
    events = []
    if bursts is None:
        bursts = [list(range(len(frames)))]
    t = 0.1
    for b in bursts:
        events.append({"at": {"t": t}, "do": "dev", "act": {"msgs": [frames[i] for i in b], "latency": 0.0}})
        t += pick(rng, [0.0, 0.0, 0.01])
    if cuts.get("mode") == "sizes" and min(cuts.get("sizes", [99])) < 8 and stream_len(frames) > 60000:
        # a dribble of a few bytes per read is for short streams: cap the payloads (one turn per read)
        frames = [dict(f, payload_gen=[min(f["payload_gen"][0], 3000), f["payload_gen"][1]]) for f in frames]
        events = [dict(e, act=dict(e["act"], msgs=[dict(m, payload_gen=[min(m["payload_gen"][0], 3000), m["payload_gen"][1]]) for m in e["act"]["msgs"]])) for e in events]
    return {
        "family": "framing",
        "knobs": knobs if knobs is not None else gen_knobs(rng),
        "device": {},
        "net": {"cuts": cuts, "d2c_latency": [0.0]},
        "actors": [{"id": "a0", "at": {"t": 0.0}, "steps": [{"do": "fh.attach", "kind": "plaintext"}]}],
        "events": events,
        "end": 50.0,
        "max_turns": 200000,
    }


def two_helpers_scn(rng: random.Random) -> dict:
    """Two connections of one process at once (an application talks to many devices): each stream is cut into small pieces
    and the pieces of the two streams alternate in time, so both helpers hold an incomplete frame at the same moments."""
    events = []
    for c in (0, 1):
        frames = [{"type": pick(rng, [1, 26, 60, 127, 128, 300]), "payload_gen": [pick(rng, [0, 5, 23, 30, 127, 128, 300, 1000]), rng.getrandbits(24)]} for _ in range(rng.randint(1, 5))]
        t = 0.1 + pick(rng, [0.0, 0.0, 0.0005, 0.001])
        for b in rand_bursts(rng, len(frames)):
            events.append({"at": {"t": t}, "do": "dev", "act": {"msgs": [frames[i] for i in b], "latency": 0.0, "conn": c}})
            t += pick(rng, [0.0, 0.002, 0.01])
    events.sort(key=lambda e: e["at"]["t"])
    return {
        "family": "framing",
        "knobs": gen_knobs(rng),
        "device": {},
        "net": {"cuts": {"mode": "sizes", "sizes": [pick(rng, [1, 2, 3, 7, 12, 50, 128]) for _ in range(rng.randint(1, 4))], "gap": 0.001}, "d2c_latency": [0.0]},
        "actors": [{"id": "a0", "at": {"t": 0.0}, "steps": [{"do": "fh.attach", "kind": "plaintext"}]}, {"id": "a1", "at": {"t": 0.0}, "steps": [{"do": "fh.attach", "kind": "plaintext"}]}],
        "events": events,
        "end": 50.0,
        "max_turns": 200000,
    }


def rand_bursts(rng: random.Random, n: int) -> list[list[int]]:
    out, cur = [], []
    for i in range(n):
        cur.append(i)
        if rng.random() < 0.4:
            out.append(cur)
            cur = []
    if cur:
        out.append(cur)
    return out


class C01(CheckBase):
    pid = "C01"
    level = "fault_enumeration"
    quick_cases = 480
    thorough_cases = 4800
    stub = CheckBase.stub + ["for the helper-level runs: the connection object (recording stand-in for process_packet / report_fatal_error)"]

    def cases(self, rng: random.Random, tier: str, idx: int) -> Iterable[dict]:
        r = idx % 8
        if r in (0, 1):
            # systematic: every single cut position of a short stream
            frames = gen_frames(rng, short=True)
            L = stream_len(frames)
            knobs = gen_knobs(rng)
            lim = 400 if tier == "quick" else 1500
            offs = range(1, L) if L <= lim else sorted(set(header_offsets(frames)) | set(rng.sample(range(1, L), lim // 2)))
            for k in offs:
                yield helper_scn(rng, frames, {"mode": "at", "at": [k]}, knobs=knobs)
        elif r == 2:
            # cuts forced inside every header varint and at payload end +-1, in pairs
            frames = gen_frames(rng, short=False)
            offs = header_offsets(frames)
            knobs = gen_knobs(rng)
            for _ in range(40 if tier == "quick" else 120):
                k = rng.randint(1, min(4, len(offs)))
                yield helper_scn(rng, frames, {"mode": "at", "at": sorted(rng.sample(offs, k))}, knobs=knobs)
        elif r == 3:
            # one-byte dribble / tiny chunks
            frames = gen_frames(rng, short=True)
            yield helper_scn(rng, frames, {"mode": "sizes", "sizes": [pick(rng, [1, 1, 2, 3])], "gap": pick(rng, [0.0, 0.001])})
        elif r == 5 and rng.random() < 0.5:
            for _ in range(8):
                yield two_helpers_scn(rng)
        elif r == 6 and rng.random() < 0.5:
            # a flood: thousands of tiny frames piled up (event-loop stall, fast sender) and handed over in one read
            n = pick(rng, [1100, 2500, 4000])
            frames = [{"type": pick(rng, [1, 7, 8, 25, 127, 128]), "payload_gen": [pick(rng, [0, 0, 1, 2]), rng.getrandbits(24)]} for _ in range(n)]
            yield helper_scn(rng, frames, pick(rng, [{"mode": "coalesce"}, {"mode": "sizes", "sizes": [pick(rng, [3000, 65536])]}]))
        elif r in (4, 5, 6):
            # random multi-cut plans, many frames per chunk, several bursts
            frames = gen_frames(rng, short=False)
            sizes = [pick(rng, [1, 2, 3, 7, 50, 128, 129, 1000, 16384, 65536, 100000]) for _ in range(rng.randint(1, 6))]
            cuts = pick(rng, [{"mode": "sizes", "sizes": sizes}, {"mode": "sizes", "sizes": sizes, "gap": 0.001}, {"mode": "coalesce"}, {"mode": "sends"}])
            yield helper_scn(rng, frames, cuts, bursts=rand_bursts(rng, len(frames)))
        else:
            # through the real connection: valid large messages (camera chunks, entity bursts)
            yield self._client_case(rng)

    def _client_case(self, rng: random.Random) -> dict:
        msgs = []
        for _ in range(rng.randint(2, 10)):
            r = rng.random()
            if r < 0.5:
                msgs.append(["CameraImageResponse", {"key": rng.randint(1, 3), "data": {"gen": [pick(rng, [0, 1, 100, 127, 128, 1000, 16384, 50000]), rng.getrandbits(20)]}, "done": rng.random() < 0.4}])
            elif r < 0.8:
                msgs.append(["SensorStateResponse", {"key": 2, "state": 1.0}])
            else:
                msgs.append(["SubscribeLogsResponse", {"message": {"gen": [pick(rng, [10, 200, 5000]), rng.getrandbits(20)]}}])
        sizes = [pick(rng, [1, 2, 3, 7, 50, 128, 1000, 16384, 65536]) for _ in range(rng.randint(1, 5))]
        return {
            "family": "session",
            "knobs": gen_knobs(rng),
            "client": {"addresses": ["10.0.0.5"], "keepalive": 60.0},
            "device": {},
            "net": {"cuts": pick(rng, [{"mode": "sizes", "sizes": sizes}, {"mode": "coalesce"}]), "d2c_latency": [0.0, 0.001]},
            "actors": [{"id": "a0", "at": {"t": 0.0}, "steps": [{"do": "connect", "login": True}, {"do": "subscribe_states"}, {"do": "sleep", "d": 5.0}, {"do": "disconnect"}]}],
            "events": [{"at": {"t": 1.0 + 0.3 * j}, "do": "dev", "act": {"msgs": msgs[j::3], "latency": 0.0}} for j in range(3) if msgs[j::3]],
            "end": 60.0,
            "max_turns": 200000,
        }

    def oracle(self, run: Any, scn: dict) -> list[Violation]:
        ix = Index(run.history)
        out = delivered_equals_complete(ix)
        if scn["family"] == "framing":
            for c, fl in ix.fatal.items():
                out.append(Violation("spurious-error", fl[0][1]["cls"], f"valid frame stream reported fatal error {fl[0][1]['cls']}: {fl[0][1]['text']}"))
            if ix.loop_exceptions:
                out.append(Violation("spurious-error", "exception", f"exception escaped data_received: {ix.loop_exceptions[0][1]}"))
        return out

    rule_text = (
        "cases come from sha256(seed, property, tier, index): a case is one frame sequence with a systematic sweep of every single cut "
        "position (short streams), forced cuts inside header varints, or one random multi-cut plan; distinct = distinct segmentation "
        "signature (the sequence of (bytes per data_received call, packets handed over after it)); non-trivial = at least one chunk "
        "boundary falls inside a frame or one chunk carries two or more frames"
    )

    def distinct_key(self, run: Any, scn: dict) -> int | None:
        import hashlib

        sig = []
        npp = 0
        nontriv = False
        for ev in run.history:
            if ev[3] == "recv":
                if sig:
                    sig[-1] = (sig[-1][0], npp)
                    if npp != 1:
                        nontriv = True
                sig.append((ev[4]["n"], 0))
                npp = 0
            elif ev[3] == "pp":
                npp += 1
        if sig:
            sig[-1] = (sig[-1][0], npp)
            if npp != 1:
                nontriv = True
        if not nontriv:
            return None
        return int.from_bytes(hashlib.blake2b(repr((sig, scn.get("knobs", {}).get("rx_type"))).encode(), digest_size=8).digest(), "big")

    def note(self, run: Any, scn: dict, notes: Any) -> None:
        notes["recv_calls"] += sum(1 for ev in run.history if ev[3] == "recv")
        notes["packets_delivered"] += sum(1 for ev in run.history if ev[3] == "pp")


CHECK = C01()
