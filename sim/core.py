"""Simulator core: world (virtual clock, agenda, history), selector, loop, sockets, transports.

The *real* asyncio SelectorEventLoop runs on top of a fake selector and fake sockets.
`SimSelector.select()` is the single point where the simulator takes control.
The engine is PRNG-free: every choice comes from the scenario document.
"""
from __future__ import annotations

import asyncio
from asyncio import selector_events
import collections
import errno
import hashlib
import heapq
import json
import selectors
import socket as _socket
from typing import Any, Callable

EPOCH = 1_700_000_000.0  # wall clock = EPOCH + virtual now
FIRST_FD = 1_000_000


class Quiescent(BaseException):
    """Raised out of select(): nothing can ever happen again."""


class HarnessError(Exception):
    """The harness (not the library) misbehaved or hit a cap; never a verdict."""


class EndOfRun(BaseException):
    """Virtual time reached the scenario's end (raised out of select())."""


class CapExceeded(BaseException):
    """Turn / virtual time cap hit (raised out of select())."""


def _norm(v: Any) -> Any:
    if isinstance(v, (bytes, bytearray, memoryview)):
        return "hex:" + bytes(v).hex()
    if isinstance(v, dict):
        return {str(k): _norm(x) for k, x in v.items()}
    if isinstance(v, (list, tuple)):
        return [_norm(x) for x in v]
    if isinstance(v, float):
        return round(v, 9)
    if isinstance(v, (str, int, bool)) or v is None:
        return v
    return repr(v)


class World:
    """Virtual time, agenda, history."""

    def __init__(self, max_turns: int = 20000, max_time: float = 7200.0) -> None:
        self.now = 0.0
        self.turn = 0
        self.seq = 0
        self.agenda: list[tuple[float, int, Callable[[], None]]] = []
        self._n = 0
        self.turn_actions: dict[int, list[Callable[[], None]]] = {}
        self.history: list[tuple[int, int, float, str, dict]] = []
        self.sockets: dict[int, SimSocket] = {}
        self.next_fd = FIRST_FD
        self.loop: SimLoop | None = None
        self.max_turns = max_turns
        self.max_time = max_time
        self.fired: collections.Counter = collections.Counter()
        self.probes: collections.Counter = collections.Counter()
        self.watchers: list[dict] = []
        self.in_select = False
        self.net: Any = None
        self.resolver: Any = None
        self.turn_hooks: list[Callable[[], None]] = []
        self.knobs: dict[str, Any] = {}
        self.ended = False
        self.end_time = float("inf")
        self._ids = collections.Counter()

    # -- ids -----------------------------------------------------------------------------
    def new_id(self, prefix: str) -> str:
        self._ids[prefix] += 1
        return f"{prefix}{self._ids[prefix]}"

    # -- history -------------------------------------------------------------------------
    def rec(self, kind: str, /, **data: Any) -> tuple:
        self.seq += 1
        ev = (self.seq, self.turn, self.now, kind, data)
        self.history.append(ev)
        if self.watchers:
            self._notify(ev)
        return ev

    def fire(self, kind: str) -> None:
        """Count a fault kind that actually took effect."""
        self.fired[kind] += 1

    def probe(self, name: str) -> None:
        self.probes[name] += 1

    def _notify(self, ev: tuple) -> None:
        kind, data = ev[3], ev[4]
        for w in list(self.watchers):
            if w["kind"] != kind:
                continue
            m = w["match"]
            ok = True
            for k, v in m.items():
                if data.get(k) != v:
                    ok = False
                    break
            if not ok:
                continue
            w["count"] += 1
            if w["count"] == w["nth"]:
                self.watchers.remove(w)
                w["fn"](ev)

    def watch(self, kind: str, match: dict, nth: int, fn: Callable[[tuple], None]) -> None:
        self.watchers.append({"kind": kind, "match": match, "nth": max(1, nth), "count": 0, "fn": fn})

    def digest(self) -> str:
        h = hashlib.sha256()
        for seq, turn, now, kind, data in self.history:
            h.update(json.dumps([seq, turn, round(now, 9), kind, _norm(data)], sort_keys=True).encode())
        return h.hexdigest()

    # -- agenda --------------------------------------------------------------------------
    def at(self, t: float, fn: Callable[[], None]) -> None:
        if t < self.now:
            t = self.now
        heapq.heappush(self.agenda, (t, self._n, fn))
        self._n += 1

    def after(self, d: float, fn: Callable[[], None]) -> None:
        self.at(self.now + max(0.0, d), fn)

    def at_turn(self, n: int, fn: Callable[[], None]) -> None:
        self.turn_actions.setdefault(n, []).append(fn)

    def next_time(self) -> float | None:
        return self.agenda[0][0] if self.agenda else None

    def run_due(self) -> None:
        while self.agenda and self.agenda[0][0] <= self.now:
            _, _, fn = heapq.heappop(self.agenda)
            fn()

    # -- placing harness actions inside a turn -------------------------------------------
    def schedule(self, phase: str, fn: Callable[[], None]) -> None:
        """Run fn as a loop callback.

        Called from inside select(): 'pre' runs before this turn's I/O callbacks,
        'post' after them (together with the timers due now).
        Called from anywhere else: 'pre' = next turn before I/O, 'post' = next turn after I/O.
        """
        loop = self.loop
        assert loop is not None
        cb = HarnessCallback(fn)
        if phase == "pre":
            loop.call_soon(cb)
        else:
            # a timer due now: collected after the I/O callbacks of this turn (inside select)
            # or of the next turn (outside select); the loop does not sleep in between
            loop.call_at(self.now, cb)

    def post_close_probe(self, conn_id: str, hops: int = 4) -> None:
        """A few turns after a connection closed (no time may pass in between: every hop is a timer
        due now), record which library timers are still armed."""

        def hop(n: int) -> None:
            if n > 0:
                self.schedule("post", lambda: hop(n - 1))
                return
            armed = []
            for h in self.loop._scheduled:
                if h._cancelled or isinstance(h._callback, HarnessCallback):
                    continue
                name = cb_name(h._callback)
                if name.startswith("aioesphomeapi.connection") or name.startswith("aioesphomeapi._frame_helper"):
                    armed.append({"cb": name, "in": round(h._when - self.now, 6)})
            armed.sort(key=lambda d: (d["cb"], d["in"]))
            self.rec("post_close_timers", conn=conn_id, timers=armed)

        if self.loop is not None and not self.loop.is_closed():
            hop(hops)

    def alloc_fd(self) -> int:
        fd = self.next_fd
        self.next_fd += 1
        return fd


def cb_name(cb: Any) -> str:
    f = cb
    for _ in range(4):
        if hasattr(f, "func"):
            f = f.func
    q = getattr(f, "__qualname__", None) or type(f).__name__
    mod = getattr(f, "__module__", "") or ""
    return f"{mod}.{q}"


class HarnessCallback:
    """Marks loop handles created by the harness (excluded from leak audits)."""

    __slots__ = ("fn",)

    def __init__(self, fn: Callable[[], None]) -> None:
        self.fn = fn

    def __call__(self) -> None:
        self.fn()


# ----------------------------------------------------------------------------------------
# ordered set with exact `set` semantics where the library uses them
# ----------------------------------------------------------------------------------------


class OSet:
    """Insertion-ordered set; raises RuntimeError on size change during iteration."""

    __slots__ = ("_d", "_lifo", "_origin")

    def __init__(self, items: Any = (), lifo: bool = False) -> None:
        self._d: dict = dict.fromkeys(items)
        self._lifo = lifo
        self._origin: Any = None

    def add(self, x: Any) -> None:
        self._d[x] = None

    def discard(self, x: Any) -> None:
        self._d.pop(x, None)

    def remove(self, x: Any) -> None:
        del self._d[x]

    def clear(self) -> None:
        self._d.clear()

    def copy(self) -> "OSet":
        return OSet(self._d, self._lifo)

    def __contains__(self, x: Any) -> bool:
        return x in self._d

    def __len__(self) -> int:
        return len(self._d)

    def __bool__(self) -> bool:
        return bool(self._d)

    def __iter__(self):
        n = len(self._d)
        keys = reversed(self._d) if self._lifo else iter(self._d)
        # dict iteration already raises RuntimeError on size change
        for k in keys:
            yield k
            if len(self._d) != n:
                raise RuntimeError("Set changed size during iteration")

    # the set algebra a plain set offers (results keep the insertion order of the left operand)
    def __sub__(self, other: Any) -> "OSet":
        return OSet((k for k in self._d if k not in other), self._lifo)

    def __and__(self, other: Any) -> "OSet":
        return OSet((k for k in self._d if k in other), self._lifo)

    def __or__(self, other: Any) -> "OSet":
        return OSet(list(self._d) + [k for k in other if k not in self._d], self._lifo)

    def __rsub__(self, other: Any) -> "OSet":
        return OSet((k for k in other if k not in self._d), self._lifo)

    __ror__ = __or__
    __rand__ = __and__
    difference = __sub__
    union = __or__
    intersection = __and__

    def update(self, other: Any) -> None:
        for k in other:
            self._d[k] = None

    def difference_update(self, other: Any) -> None:
        for k in list(other):
            self._d.pop(k, None)

    def pop(self) -> Any:
        k = next(reversed(self._d)) if not self._lifo else next(iter(self._d))
        del self._d[k]
        return k

    def __eq__(self, other: Any) -> bool:
        if isinstance(other, OSet):
            return set(self._d) == set(other._d)
        if isinstance(other, (set, frozenset)):
            return set(self._d) == other
        return NotImplemented

    def __repr__(self) -> str:
        return f"OSet({list(self._d)!r})"


class HandlerDict(dict):
    """dict that converts the `{cb}` set literals the library stores into OSets."""

    __slots__ = ("lifo", "_conv")

    def __init__(self, lifo: bool = False) -> None:
        super().__init__()
        self.lifo = lifo
        self._conv: dict = {}

    def __setitem__(self, k: Any, v: Any) -> None:
        if type(v) is set:
            # identity preserving: one set object stored under two keys stays ONE container (an aliasing bug in the
            # library must stay an aliasing bug under the seam); the OSet keeps its origin alive, so ids are not reused
            o = self._conv.get(id(v))
            if o is None or o._origin is not v:
                o = OSet(v, self.lifo)
                o._origin = v
                self._conv[id(v)] = o
            v = o
        super().__setitem__(k, v)

    def setdefault(self, k: Any, default: Any = None) -> Any:
        if k not in self:
            self[k] = default
        return self[k]


# ----------------------------------------------------------------------------------------
# sockets
# ----------------------------------------------------------------------------------------

_EOF = object()


class SimSocket:
    """Duck-typed socket.socket living in the World."""

    def __init__(self, world: World, family: int, type: int, proto: int) -> None:
        self.world = world
        self.family = family
        self.type = type
        self.proto = proto
        self._fd = world.alloc_fd()
        world.sockets[self._fd] = self
        self.closed = False
        self.rx: collections.deque = collections.deque()  # [start, bytearray] | _EOF | Exception
        self.rx_total = 0
        self.connecting = False
        self.connect_done = False
        self.so_error = 0
        self.peer: tuple | None = None
        self.conn: Any = None
        self.opts: dict = {}
        self.tx_blocked = False
        self.tx_error: Exception | None = None
        self.tx_short: int | None = None
        self.tx_total = 0
        self.rx_type = world.knobs.get("rx_type", "bytes")
        world.rec("sock_new", fd=self._fd, family=int(family))

    # identity -----------------------------------------------------------------------
    def __hash__(self) -> int:
        return self._fd

    def __eq__(self, other: Any) -> bool:
        return self is other

    def __repr__(self) -> str:
        return f"<SimSocket fd={self._fd} closed={self.closed}>"

    def fileno(self) -> int:
        return -1 if self.closed else self._fd

    # configuration ------------------------------------------------------------------
    def setblocking(self, flag: bool) -> None:
        if flag:
            raise HarnessError("blocking mode requested on a SimSocket")

    def settimeout(self, t: Any) -> None:
        if t not in (0, 0.0):
            raise HarnessError("timeout requested on a SimSocket")

    def gettimeout(self) -> float:
        return 0.0

    def setsockopt(self, level: int, opt: int, val: Any) -> None:
        if self.closed:
            raise OSError(errno.EBADF, "Bad file descriptor")
        if level == _socket.IPPROTO_TCP and opt == _socket.TCP_NODELAY and self.world.knobs.get("sock_fail") == "nodelay":
            # e.g. the peer reset the connection right after it was established (EINVAL on BSD/macOS)
            self.world.fire("setsockopt_error")
            raise OSError(errno.EINVAL, "Invalid argument")
        if level == _socket.SOL_SOCKET and opt == _socket.SO_RCVBUF:
            limit = self.world.knobs.get("rcvbuf_limit")
            if limit is not None and val > limit:
                self.world.fire("rcvbuf_refused")
                raise OSError(errno.ENOBUFS, "No buffer space available")
        self.opts[(level, opt)] = val

    def getsockopt(self, level: int, opt: int, *a: Any) -> int:
        if level == _socket.SOL_SOCKET and opt == _socket.SO_ERROR:
            e, self.so_error = self.so_error, 0
            return e
        return self.opts.get((level, opt), 0)

    def getsockname(self) -> tuple:
        if self.family == _socket.AF_INET6:
            return ("fd00::1", 40000 + self._fd % 1000, 0, 0)
        return ("10.0.0.1", 40000 + self._fd % 1000)

    def getpeername(self) -> tuple:
        if self.closed:
            raise OSError(errno.EBADF, "Bad file descriptor")
        if self.peer is None or not self.connect_done or self.so_error:
            raise OSError(errno.ENOTCONN, "Transport endpoint is not connected")
        if self.world.knobs.get("sock_fail") == "getpeername":
            # the peer reset the connection between connect() and getpeername()
            self.world.fire("getpeername_error")
            raise OSError(errno.ENOTCONN, "Transport endpoint is not connected")
        return self.peer

    def bind(self, addr: Any) -> None:
        pass

    # connect ------------------------------------------------------------------------
    def connect(self, addr: tuple) -> None:
        if self.closed:
            raise OSError(errno.EBADF, "Bad file descriptor")
        self.peer = tuple(addr)
        self.connecting = True
        self.world.rec("sock_connect", fd=self._fd, addr=list(addr[:2]), sockaddr=list(addr))
        self.world.net.start_connect(self, self.peer)
        raise BlockingIOError(errno.EINPROGRESS, "Operation now in progress")

    # readiness ----------------------------------------------------------------------
    def readable(self) -> bool:
        return not self.closed and bool(self.rx)

    def writable(self) -> bool:
        if self.closed:
            return False
        return self.connect_done and not self.tx_blocked

    # data ---------------------------------------------------------------------------
    def push_data(self, start: int, data: bytes, merge: bool) -> None:
        if merge and self.rx and isinstance(self.rx[-1], list) and self.rx[-1][0] + len(self.rx[-1][1]) == start:
            self.rx[-1][1] += data
        else:
            self.rx.append([start, bytearray(data)])

    def push_eof(self) -> None:
        self.rx.append(_EOF)

    def push_error(self, exc: Exception, discard: bool) -> None:
        self.was_reset = True
        if discard:
            self.rx.clear()
        self.rx.append(exc)

    def recv(self, n: int) -> Any:
        if self.closed:
            raise OSError(errno.EBADF, "Bad file descriptor")
        if not self.rx:
            raise BlockingIOError(errno.EAGAIN, "Resource temporarily unavailable")
        item = self.rx[0]
        if item is _EOF:
            self.world.rec("recv_eof", fd=self._fd)
            return b""
        if isinstance(item, Exception):
            self.rx.popleft()
            self.world.rec("recv_err", fd=self._fd, err=type(item).__name__)
            raise item
        start, buf = item
        if len(buf) > n:
            data = bytes(buf[:n])
            item[0] = start + n
            del buf[:n]
        else:
            data = bytes(buf)
            self.rx.popleft()
        self.rx_total += len(data)
        self.world.rec("recv", fd=self._fd, n=len(data), total=self.rx_total)
        if self.rx_type == "bytearray":
            return bytearray(data)
        if self.rx_type == "memoryview":
            return memoryview(data)
        if self.rx_type == "memoryview_slice":
            # a view into the middle of a larger immutable object (zero-copy receive adapters slice one big buffer)
            return memoryview(b"\x00\x07\x01" + data + b"\x00\x00")[3 : 3 + len(data)]
        if self.rx_type == "memoryview_wide" and data and len(data) % 2 == 0:
            # a buffer whose items are wider than a byte: len() counts items, not bytes
            return memoryview(bytearray(data)).cast("H")
        if self.rx_type == "memoryview_strided" and data:
            # a non-contiguous view: every other byte of a buffer twice the size
            wide = bytearray(len(data) * 2)
            wide[::2] = data
            return memoryview(wide)[::2]
        if self.rx_type in ("memoryview_wide", "memoryview_strided"):
            return memoryview(data)
        if self.rx_type in ("bytearray_reused", "memoryview_reused"):
            # a caller that owns one receive buffer and refills it for every read (recv_into style): whatever the previous
            # read left there is overwritten now, so anything the protocol kept by reference instead of by copy changes
            buf = getattr(self, "_rxbuf", None)
            if buf is None:
                buf = self._rxbuf = bytearray(b"\xee" * (1 << 20))
                self._rxn = 0
            if len(data) > len(buf):
                return bytearray(data)
            buf[: self._rxn] = b"\xee" * self._rxn
            buf[: len(data)] = data
            self._rxn = len(data)
            if self.rx_type == "memoryview_reused":
                return memoryview(buf)[: len(data)]
            # (a bytearray cannot shrink while something exports it: hand out a right-sized twin and refill THAT in place)
            twin = getattr(self, "_rxtwin", None)
            if twin is None:
                twin = self._rxtwin = bytearray()
            try:
                twin[:] = data
            except BufferError:
                twin = self._rxtwin = bytearray(data)
            return twin
        return data

    def send(self, data: Any) -> int:
        if self.closed:
            raise OSError(errno.EBADF, "Bad file descriptor")
        if self.tx_error is not None:
            self.world.fire("send_error")
            self.world.rec("send_err", fd=self._fd, err=type(self.tx_error).__name__)
            raise self.tx_error
        if self.tx_blocked:
            self.world.fire("send_eagain")
            raise BlockingIOError(errno.EAGAIN, "Resource temporarily unavailable")
        data = bytes(data)
        n = len(data)
        if self.tx_short is not None:
            n = min(n, self.tx_short)
            self.tx_short = None
            self.tx_blocked = True
            self.world.fire("send_short")
            unblock = self.world.knobs.get("tx_unblock_after", 0.05)
            self.world.after(unblock, self._unblock)
        if n:
            self.tx_total += n
            self.world.rec("send", fd=self._fd, n=n, total=self.tx_total)
            if self.conn is not None:
                self.conn.client_sent(data[:n])
        return n

    def _unblock(self) -> None:
        self.tx_blocked = False

    def sendmsg(self, buffers: Any, *a: Any) -> int:
        return self.send(b"".join(bytes(b) for b in buffers))

    def shutdown(self, how: int) -> None:
        self.world.rec("sock_shutdown", fd=self._fd, how=how)
        if self.closed:
            raise OSError(errno.EBADF, "Bad file descriptor")
        if getattr(self, "was_reset", False) or not self.connect_done:
            # as on Linux: shutdown() on a socket the peer has reset / that is not connected fails with ENOTCONN
            raise OSError(errno.ENOTCONN, "Transport endpoint is not connected")

    def close(self) -> None:
        if self.closed:
            return
        self.closed = True
        self.world.rec("sock_close", fd=self._fd)
        if self.conn is not None:
            self.conn.client_closed()
        elif self.connecting and not self.connect_done:
            self.world.net.abort_connect(self)

    def detach(self) -> int:
        raise HarnessError("detach on SimSocket")


class SocketShim:
    """Stands in for the `socket` module inside aiohappyeyeballs.impl."""

    def __init__(self, get_world: Callable[[], World]) -> None:
        self._get_world = get_world

    def socket(self, family: int = _socket.AF_INET, type: int = _socket.SOCK_STREAM, proto: int = 0, fileno: Any = None) -> SimSocket:
        return SimSocket(self._get_world(), family, type, proto)

    def __getattr__(self, name: str) -> Any:
        return getattr(_socket, name)


# ----------------------------------------------------------------------------------------
# selector, transport, loop
# ----------------------------------------------------------------------------------------


class SimSelector(selectors._BaseSelectorImpl):
    def __init__(self, world: World) -> None:
        super().__init__()
        self.world = world

    def _ready(self) -> list:
        out = []
        socks = self.world.sockets
        order = sorted(self._fd_to_key)
        if self.world.knobs.get("fd_order") == "desc":
            order.reverse()
        for fd in order:
            s = socks.get(fd)
            if s is None:
                continue
            key = self._fd_to_key[fd]
            mask = 0
            if key.events & selectors.EVENT_READ and s.readable():
                mask |= selectors.EVENT_READ
            if key.events & selectors.EVENT_WRITE and s.writable():
                mask |= selectors.EVENT_WRITE
            if mask:
                out.append((key, mask))
        return out

    def select(self, timeout: float | None = None) -> list:
        w = self.world
        w.turn += 1
        if w.turn > w.max_turns or w.now > w.max_time:
            raise CapExceeded(f"turn={w.turn} now={w.now}")
        if w.now > w.end_time:
            raise EndOfRun()
        loop = w.loop
        w.in_select = True
        try:
            for hook in w.turn_hooks:
                hook()
            w.run_due()
            ready = self._ready()
            idle = not ready and not (timeout is not None and timeout <= 0) and not (loop is not None and loop._ready)
            if idle:
                sched = loop._scheduled if loop is not None else None
                t_timer = sched[0]._when if sched else None
                t_agenda = w.next_time()
                cands = [t for t in (t_timer, t_agenda) if t is not None]
                if cands:
                    if min(cands) > w.end_time and not w.turn_actions:
                        w.now = max(w.now, w.end_time)
                        raise EndOfRun()
                    w.now = max(w.now, min(cands))
                    w.run_due()
                elif not w.turn_actions:
                    raise Quiescent()
                # else: only turn-pinned actions remain; spin without advancing time
            acts = w.turn_actions.pop(w.turn, None)
            if acts:
                for fn in acts:
                    fn()
                w.run_due()
            return self._ready()
        finally:
            w.in_select = False


class SimTransport(selector_events._SelectorSocketTransport):
    """The real selector transport; only records calls and can raise from write()."""

    def __init__(self, loop: "SimLoop", sock: SimSocket, protocol: Any, waiter: Any = None, extra: Any = None, server: Any = None) -> None:
        self._world = loop.world
        self._tid = loop.world.new_id("tr")
        self._sim_fd = sock._fd
        super().__init__(loop, sock, protocol, waiter, extra, server)
        loop.world.rec("tr_new", tr=self._tid, fd=sock._fd)
        loop.world.__dict__.setdefault("transports", []).append(self)

    def write(self, data: Any) -> None:
        w = self._world
        w.rec("tr_write", tr=self._tid, fd=self._sim_fd, data=bytes(data), closing=self._closing, conn_lost=self._conn_lost)
        exc = w.knobs.get("write_raises")
        if exc is not None and (self._closing or self._conn_lost or w.knobs.get("write_raises_now")):
            # uvloop-style: write() on a closing transport raises synchronously
            w.fire("write_raises_sync")
            e = exc("unable to perform operation on closed transport; the handler is closed")
            e.sim_fault_id = w.new_id("F")  # type: ignore[attr-defined]  # an injected cause in its own right
            w.rec("tr_write_raised", tr=self._tid, fd=self._sim_fd, fault=e.sim_fault_id)
            raise e
        super().write(data)

    def close(self) -> None:
        if not self._closing:
            self._world.rec("tr_close", tr=self._tid, fd=self._sim_fd)
        super().close()

    def abort(self) -> None:
        self._world.rec("tr_abort", tr=self._tid, fd=self._sim_fd)
        super().abort()

    def __del__(self, _warn: Any = None) -> None:
        if self._sock is not None:
            try:
                self._world.rec("tr_del_unclosed", tr=self._tid, fd=self._sim_fd)
            except Exception:
                pass
            self._sock.close()


class SimTask(asyncio.Task):
    """Task with a deterministic hash so sets of tasks iterate reproducibly."""

    _next_id = 0

    def __init__(self, coro: Any, **kw: Any) -> None:
        self._sim_id = SimTask._next_id
        super().__init__(coro, **kw)

    def __hash__(self) -> int:
        return self._sim_id

    def __eq__(self, other: Any) -> bool:
        return self is other


class SimLoop(asyncio.SelectorEventLoop):
    def __init__(self, world: World) -> None:
        self.world = world
        super().__init__(selector=SimSelector(world))
        world.loop = self
        self._sim_exceptions: list[dict] = []
        self.set_exception_handler(self._sim_exception_handler)
        self.set_task_factory(self._sim_task_factory)
        self._task_n = 0

    def _sim_task_factory(self, loop: Any, coro: Any, **kw: Any) -> asyncio.Task:
        self._task_n += 1
        if kw.get("name") is None:
            kw["name"] = f"simtask-{self._task_n}"
        SimTask._next_id = self._task_n
        return SimTask(coro, loop=loop, **kw)

    def _sim_exception_handler(self, loop: Any, ctx: dict) -> None:
        exc = ctx.get("exception")
        self.world.rec(
            "loop_exception",
            message=str(ctx.get("message")),
            exc=type(exc).__name__ if exc is not None else None,
            text=str(exc) if exc is not None else None,
        )
        self._sim_exceptions.append(ctx)

    def time(self) -> float:
        return self.world.now

    async def getaddrinfo(self, host: Any, port: Any, *, family: int = 0, type: int = 0, proto: int = 0, flags: int = 0) -> list:
        return await self.world.resolver.getaddrinfo(host, port, family=family, type=type, proto=proto)

    async def getnameinfo(self, sockaddr: Any, flags: int = 0) -> Any:
        raise HarnessError("getnameinfo not simulated")

    def run_in_executor(self, executor: Any, func: Any, *args: Any) -> Any:
        raise HarnessError(f"run_in_executor({func!r}) reached: a thread pool is not simulated")

    def _make_socket_transport(self, sock: Any, protocol: Any, waiter: Any = None, *, extra: Any = None, server: Any = None) -> Any:
        if not isinstance(sock, SimSocket):
            raise HarnessError("real socket reached the simulated loop")
        return SimTransport(self, sock, protocol, waiter, extra, server)
