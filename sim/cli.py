"""Command line: check <ID> --tier quick|thorough | --replay FILE | --digest (scenario on stdin)."""
from __future__ import annotations

import argparse
import json
import os
import sys

HERE = os.path.dirname(os.path.abspath(__file__))
sys.path.insert(0, os.path.dirname(HERE))
sys.dont_write_bytecode = True


def main() -> int:
    ap = argparse.ArgumentParser()
    ap.add_argument("pid", nargs="?")
    ap.add_argument("--tier", default=os.environ.get("VERIF_TIER", "quick"))
    ap.add_argument("--seed", type=int, default=None)
    ap.add_argument("--replay")
    ap.add_argument("--digest", action="store_true")
    ap.add_argument("--digests", action="store_true", help="list of scenarios on stdin, one digest per line")
    ap.add_argument("--dump", action="store_true", help="with --replay: print the history")
    ap.add_argument("--jobs", type=int, default=None)
    ap.add_argument("--cases", type=int, default=None)
    ap.add_argument("--no-write", action="store_true")
    a = ap.parse_args()
    if a.digests:
        from sim.engine import run_scenario

        for scn in json.loads(sys.stdin.read()):
            run = run_scenario(scn)
            print("HARNESS:" + repr(run.harness_errors[:1]) if run.harness_errors else run.digest)
        return 0
    if a.digest:
        from sim.engine import run_scenario

        scn = json.loads(sys.stdin.read())
        run = run_scenario(scn)
        if run.harness_errors:
            print("HARNESS:" + repr(run.harness_errors[:1]))
        else:
            print(run.digest)
        return 0
    from sim import runner

    if a.replay:
        if a.dump:
            from sim.engine import run_scenario

            doc = json.load(open(a.replay))
            run = run_scenario(doc["scenario"])
            for ev in run.history:
                print(ev)
        return runner.replay_file(a.replay)
    if not a.pid:
        ap.error("property id required")
    seed = a.seed if a.seed is not None else int(os.environ.get("VERIF_SEED", "0") or 0)
    if a.pid == "selftest-determinism":
        from sim import selftest

        return selftest.determinism(seed, a.tier)
    return runner.run_check(a.pid, a.tier, seed, jobs=a.jobs, n_cases=a.cases, write=not a.no_write)


if __name__ == "__main__":
    sys.exit(main())
