"""Library line reach: which lines of function bodies of aioesphomeapi a batch executed.

Uses sys.monitoring (PEP 669) LINE events; every (code, line) location is disabled after its first hit, so the cost
is one callback per location per process.  Only *function* code objects are counted (module and class bodies run at
import time, before a worker starts): reach = hit lines / lines of all function code objects of the file.
The measure is observational only: nothing reads it during a run, it never influences a verdict or a digest.
"""
from __future__ import annotations

import os
import sys
from types import CodeType

_SKIP = ("api_pb2.py", "api_options_pb2.py", "log_reader.py", "log_runner.py", "discover.py", "log_parser.py")
_hits: set[tuple[str, int]] = set()
_state = {"on": False, "prefix": ""}


def start(pkg_dir: str) -> None:
    mon = getattr(sys, "monitoring", None)
    if mon is None or _state["on"]:
        return
    prefix = os.path.abspath(pkg_dir) + os.sep
    _state["prefix"] = prefix
    tool = mon.COVERAGE_ID
    try:
        mon.use_tool_id(tool, "verif-reach")
    except ValueError:
        return
    disable = mon.DISABLE

    def on_line(code: CodeType, line: int):  # noqa: ANN202
        fn = code.co_filename
        if fn.startswith(prefix) and code.co_name != "<module>":
            _hits.add((fn[len(prefix):], line))
        return disable

    mon.register_callback(tool, mon.events.LINE, on_line)
    mon.set_events(tool, mon.events.LINE)
    _state["on"] = True


def collect() -> list[tuple[str, int]]:
    return sorted(_hits)


def _function_lines(code: CodeType, inside_function: bool, out: set[int]) -> None:
    is_fn = code.co_name != "<module>" and not _is_class_body(code)
    if is_fn or inside_function:
        first = True
        for _s, _e, ln in code.co_lines():
            if ln is None:
                continue
            if first and ln == code.co_firstlineno:
                # the def line itself (RESUME) only produces a LINE event for generators/coroutines on entry; skip it
                first = False
                continue
            first = False
            out.add(ln)
    for c in code.co_consts:
        if isinstance(c, CodeType):
            _function_lines(c, inside_function or is_fn, out)


def _dead_lines(src: str) -> set[int]:
    """Lines that can never produce a LINE event in a function body: def headers, `if TYPE_CHECKING:` blocks."""
    import ast

    dead: set[int] = set()
    for node in ast.walk(ast.parse(src)):
        if isinstance(node, (ast.FunctionDef, ast.AsyncFunctionDef)):
            first_body = node.body[0].lineno if node.body else node.lineno
            dead.update(range(node.lineno, first_body))
        elif isinstance(node, ast.If) and isinstance(node.test, ast.Name) and node.test.id == "TYPE_CHECKING":
            dead.update(range(node.lineno, (node.body[-1].end_lineno or node.lineno) + 1))
    return dead


def _is_class_body(code: CodeType) -> bool:
    return "__qualname__" in code.co_names and "__module__" in code.co_names and code.co_argcount == 0 and "__name__" in code.co_names


def denominators(pkg_dir: str) -> dict[str, set[int]]:
    out: dict[str, set[int]] = {}
    pkg_dir = os.path.abspath(pkg_dir)
    for root, _d, files in os.walk(pkg_dir):
        for f in files:
            if not f.endswith(".py") or f in _SKIP:
                continue
            p = os.path.join(root, f)
            rel = p[len(pkg_dir) + 1:]
            try:
                code = compile(open(p, encoding="utf-8").read(), p, "exec", dont_inherit=True)
            except SyntaxError:
                continue
            lines: set[int] = set()
            _function_lines(code, False, lines)
            lines -= _dead_lines(open(p, encoding="utf-8").read())
            if lines:
                out[rel] = lines
    return out


def ranges(nums: list[int]) -> list[str]:
    out = []
    start = prev = None
    for n in nums:
        if start is None:
            start = prev = n
        elif n == prev + 1:
            prev = n
        else:
            out.append(f"{start}-{prev}" if prev != start else str(start))
            start = prev = n
    if start is not None:
        out.append(f"{start}-{prev}" if prev != start else str(start))
    return out


def summarise(pkg_dir: str, hits: set[tuple[str, int]], files: list[str] | None = None) -> dict:
    den = denominators(pkg_dir)
    per: dict[str, dict] = {}
    byfile: dict[str, set[int]] = {}
    for f, ln in hits:
        byfile.setdefault(f, set()).add(ln)
    for f, lines in sorted(den.items()):
        if files is not None and f not in files:
            continue
        got = byfile.get(f, set()) & lines
        if not got and files is None:
            continue
        per[f] = {"function_lines": len(lines), "reached": len(got), "unreached": ranges(sorted(lines - got))}
    return per
