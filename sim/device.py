"""Simulated network and ESPHome device (independent peer).

SimNet   : connect outcomes per address, one SimConn per established TCP connection
SimConn  : two byte pipes with latency / cut plans; knows device frame boundaries
SimDevice: persona + reactive script, speaks plaintext or Noise via sim.wire
Resolver : scripted getaddrinfo
"""
from __future__ import annotations

import asyncio
import base64
import errno
import socket as _socket
from typing import Any

from . import wire
from .core import World, HarnessError

_ERRNO = {
    "refused": (errno.ECONNREFUSED, "Connection refused"),
    "unreachable": (errno.EHOSTUNREACH, "No route to host"),
    "netunreach": (errno.ENETUNREACH, "Network is unreachable"),
    "timedout": (errno.ETIMEDOUT, "Connection timed out"),
}


def make_oserror(world: World, kind: str) -> OSError:
    """Injected socket errors carry a fault id so oracles can find the object in cause chains."""
    table = {
        "reset": ConnectionResetError(errno.ECONNRESET, "Connection reset by peer"),
        "epipe": BrokenPipeError(errno.EPIPE, "Broken pipe"),
        "etimedout": TimeoutError(errno.ETIMEDOUT, "Connection timed out"),
        "ehostunreach": OSError(errno.EHOSTUNREACH, "No route to host"),
        "eio": OSError(errno.EIO, "Input/output error"),
    }
    exc = table[kind]
    exc.sim_fault_id = world.new_id("F")  # type: ignore[attr-defined]
    return exc


class Resolver:
    """Scripted OS resolver. spec: host -> {"result": [[family, addr], ...] | "error" | "hang" | "empty", "latency": s}"""

    def __init__(self, world: World, spec: dict) -> None:
        self.world = world
        self.spec = spec or {}
        self.calls: list = []

    async def getaddrinfo(self, host: Any, port: Any, *, family: int = 0, type: int = 0, proto: int = 0) -> list:
        w = self.world
        w.rec("getaddrinfo", host=str(host), port=port)
        if isinstance(host, str):
            # socket.getaddrinfo encodes a str host with the idna codec first: UnicodeError for an empty or > 63 byte label
            try:
                host.encode("idna")
            except UnicodeError:
                w.fire("resolve_bad_name")
                raise
        ent = self.spec.get(str(host), self.spec.get("*", {"result": "error"}))
        lat = ent.get("latency", 0.0)
        fut = w.loop.create_future()
        w.after(lat, lambda: (not fut.done()) and fut.set_result(None))
        res = ent.get("result", "error")
        if res == "hang":
            w.fire("resolve_hang")
            await w.loop.create_future()
        await fut
        if res == "error":
            w.fire("resolve_error")
            exc = _socket.gaierror(_socket.EAI_NONAME, "Name or service not known")
            exc.sim_fault_id = w.new_id("F")  # type: ignore[attr-defined]
            raise exc
        if res == "empty":
            w.fire("resolve_empty")
            return []
        out = []
        for fam, addr, *rest in res:
            if fam == 6:
                # (a link-local answer carries its interface as the scope id, the 4th sockaddr field)
                out.append((_socket.AF_INET6, _socket.SOCK_STREAM, _socket.IPPROTO_TCP, "", (addr, port, 0, rest[0] if rest else 0)))
            elif fam == 4:
                out.append((_socket.AF_INET, _socket.SOCK_STREAM, _socket.IPPROTO_TCP, "", (addr, port)))
            else:
                out.append((fam, _socket.SOCK_STREAM, _socket.IPPROTO_TCP, "", (addr, port)))
        return out


class SimConn:
    """One TCP connection between a client SimSocket and the device."""

    def __init__(self, net: "SimNet", sock: Any, device: "SimDevice") -> None:
        self.net = net
        self.world = net.world
        self.sock = sock
        self.device = device
        self.cid = self.world.new_id("c")
        self.alive_dev = True  # device side still open
        self.client_gone = False
        cfg = net.cfg
        self.c2d_latency = cfg.get("c2d_latency", 0.001)
        self.d2c_latency = list(cfg.get("d2c_latency", [0.001]))
        self._lat_i = 0
        cuts = cfg.get("cuts", {"mode": "coalesce"})
        self.cut_mode = cuts.get("mode", "coalesce")
        self.cut_sizes = list(cuts.get("sizes", []))
        self.cut_at = set(cuts.get("at", []))
        self.cut_gap = cuts.get("gap", 0.0)
        self._next_cut = self.cut_sizes[0] if (self.cut_mode == "sizes" and self.cut_sizes) else None
        self._cut_i = 0
        self._cuts_done: set = set()
        self.d2c_off = 0  # bytes produced by device so far
        self._last_arrival = 0.0
        self.frames: list[dict] = []  # device frames: {idx, end, name, type, payload, tampered}
        self.eof_sent = False
        self.dstate: dict = {}  # device per-connection state

    # client -> device ----------------------------------------------------------------
    def client_sent(self, data: bytes) -> None:
        if not self.alive_dev:
            return
        self.world.after(self.c2d_latency, lambda: self.alive_dev and self.device.on_bytes(self, data))

    def client_closed(self) -> None:
        self.client_gone = True
        self.world.after(self.c2d_latency, lambda: self.device.on_client_closed(self))

    # device -> client ----------------------------------------------------------------
    def _latency(self) -> float:
        lat = self.d2c_latency[self._lat_i % len(self.d2c_latency)]
        self._lat_i += 1
        return lat

    def device_send(self, data: bytes, frames: list[dict] | None = None, latency: float | None = None) -> None:
        """Emit bytes; `frames` = metadata of the device frames contained (in order, contiguous).

        The pipe is strictly FIFO: cut points and release times are fixed here, at send time.
        """
        if not data:
            return
        start = self.d2c_off
        self.d2c_off += len(data)
        if frames:
            for f in frames:
                f["idx"] = len(self.frames)
                self.frames.append(f)
        lat = self._latency() if latency is None else latency
        t = max(self._last_arrival, self.world.now + lat)
        pts = self._cut_points(start, start + len(data))
        boundary_cut = self.cut_mode == "sends" or start in self._cuts_done
        if pts:
            self.world.probe("cut_inside_send")
        prev = start
        for k, p in enumerate(pts + [start + len(data)]):
            piece = data[prev - start : p - start]
            merge = (k == 0) and not boundary_cut
            if k > 0:
                t += self.cut_gap
            self.world.at(t, lambda off=prev, piece=piece, merge=merge: self._release(off, piece, merge))
            prev = p
        self._last_arrival = t

    def _cut_points(self, a: int, b: int) -> list[int]:
        """Cut offsets strictly inside (a, b); offsets equal to a are remembered in _cuts_done."""
        pts: list[int] = []
        if self.cut_mode == "sizes" and self.cut_sizes:
            while self._next_cut is not None and self._next_cut < b:
                self._cuts_done.add(self._next_cut)
                if self._next_cut > a:
                    pts.append(self._next_cut)
                self._cut_i += 1
                self._next_cut += max(1, self.cut_sizes[self._cut_i % len(self.cut_sizes)])
        elif self.cut_mode == "at":
            self._cuts_done = self.cut_at
            pts = sorted(p for p in self.cut_at if a < p < b)
        return pts

    def _release(self, off: int, piece: bytes, merge: bool) -> None:
        if self.client_gone or self.sock.closed:
            return
        self.sock.push_data(off, piece, merge)
        end = off + len(piece)
        done = [f["idx"] for f in self.frames if off < f["end"] <= end]
        self.world.rec("d2c_avail", conn=self.cid, off=off, n=len(piece), frames=done)
        for idx in done:
            f = self.frames[idx]
            self.world.rec("d2c_frame_avail", conn=self.cid, idx=idx, name=f.get("name"))

    def device_close(self, kind: str = "fin", latency: float | None = None) -> None:
        """Device closes: fin (after pending data) or rst."""
        if not self.alive_dev:
            return
        self.alive_dev = False
        self.device.conn_closed(self)
        lat = self._latency() if latency is None else latency
        t = max(self._last_arrival, self.world.now + lat)
        if kind == "fin":
            self._last_arrival = t

            def fin() -> None:
                if not self.sock.closed:
                    self.world.fire("eof")
                    self.sock.push_eof()
                    self.world.rec("d2c_eof", conn=self.cid)

            self.world.at(t, fin)
        else:
            errkind = {"rst": "reset", "etimedout": "etimedout", "ehostunreach": "ehostunreach", "eio": "eio"}[kind]
            t = self.world.now + lat
            discard = self.world.knobs.get("rst_discards", True)

            def rst() -> None:
                if not self.sock.closed:
                    exc = make_oserror(self.world, errkind)
                    self.world.fire("read_" + errkind)
                    self.sock.push_error(exc, discard)
                    self.sock.tx_error = make_oserror(self.world, "epipe")
                    self.world.rec("d2c_err", conn=self.cid, kind=errkind, fault=exc.sim_fault_id)

            self.world.at(t, rst)


class SimNet:
    """cfg: {"connect": {addr: [ {outcome, latency}, ... ]}, c2d_latency, d2c_latency, cuts}"""

    def __init__(self, world: World, cfg: dict, devices: dict) -> None:
        self.world = world
        self.cfg = cfg or {}
        self.devices = devices  # addr -> SimDevice (or "*" default)
        self.attempts: dict = {}
        self.conns: list[SimConn] = []
        self.pending: dict = {}

    def _plan(self, addr: str) -> dict:
        for ent in self.cfg.get("connect_at", []):
            if ent["from"] <= self.world.now < ent["to"]:
                return ent
        plans = self.cfg.get("connect", {})
        lst = plans.get(addr, plans.get("*", [{"outcome": "ok", "latency": 0.001}]))
        i = self.attempts.get(addr, 0)
        self.attempts[addr] = i + 1
        return lst[min(i, len(lst) - 1)]

    def start_connect(self, sock: Any, peer: tuple) -> None:
        addr = peer[0]
        plan = self._plan(addr)
        outcome = plan.get("outcome", "ok")
        lat = plan.get("latency", 0.001)
        w = self.world
        if outcome == "netunreach_sync":
            # no route to the host: a non-blocking connect() fails at once with ENETUNREACH instead of EINPROGRESS,
            # so the whole connect attempt of the library fails without ever yielding to the event loop
            w.fire("connect_netunreach_sync")
            w.rec("tcp_failed", fd=sock._fd, addr=addr, outcome=outcome)
            raise OSError(errno.ENETUNREACH, "Network is unreachable")
        token = object()
        self.pending[sock._fd] = token

        def done() -> None:
            if self.pending.get(sock._fd) is not token or sock.closed:
                return
            del self.pending[sock._fd]
            if outcome == "ok":
                dev = self.devices.get(addr, self.devices.get("*"))
                if dev is None or not dev.reachable():
                    sock.so_error = errno.ECONNREFUSED
                    sock.connect_done = True
                    w.fire("connect_refused")
                    w.rec("tcp_refused", fd=sock._fd, addr=addr)
                    return
                sock.connect_done = True
                conn = SimConn(self, sock, dev)
                sock.conn = conn
                self.conns.append(conn)
                w.rec("tcp_established", fd=sock._fd, addr=addr, conn=conn.cid)
                dev.on_connect(conn)
            else:
                code, _ = _ERRNO[outcome]
                sock.so_error = code
                sock.connect_done = True
                w.fire("connect_" + outcome)
                w.rec("tcp_failed", fd=sock._fd, addr=addr, outcome=outcome)

        if outcome == "hang":
            w.fire("connect_hang")
            return
        w.after(lat, done)

    def abort_connect(self, sock: Any) -> None:
        self.pending.pop(sock._fd, None)


# ----------------------------------------------------------------------------------------
# messages from JSON
# ----------------------------------------------------------------------------------------


def build_msg(pb: Any, name: str, fields: dict | None) -> Any:
    cls = getattr(pb, name)
    msg = cls()
    _fill(msg, fields or {})
    return msg


def _fill(msg: Any, fields: dict) -> None:
    for k, v in fields.items():
        fd = msg.DESCRIPTOR.fields_by_name[k]
        if (fd.is_repeated if hasattr(fd, 'is_repeated') else fd.label == fd.LABEL_REPEATED):
            tgt = getattr(msg, k)
            for item in v:
                if fd.type == fd.TYPE_MESSAGE:
                    _fill(tgt.add(), item)
                else:
                    tgt.append(_scalar(fd, item))
        elif fd.type == fd.TYPE_MESSAGE:
            _fill(getattr(msg, k), v)
        else:
            setattr(msg, k, _scalar(fd, v))


def gen_bytes(n: int, seed: Any) -> bytes:
    """Deterministic pseudo-random bytes (keeps scenario documents small)."""
    import hashlib

    out = bytearray()
    i = 0
    while len(out) < n:
        out += hashlib.sha256(f"{seed}:{i}".encode()).digest()
        i += 1
    return bytes(out[:n])


def _scalar(fd: Any, v: Any) -> Any:
    if isinstance(v, dict) and "gen" in v:
        b = gen_bytes(v["gen"][0], v["gen"][1])
        if fd.type == fd.TYPE_BYTES:
            return b
        return b.hex()[: v["gen"][0]]
    if fd.type == fd.TYPE_BYTES:
        if isinstance(v, str):
            return bytes.fromhex(v)
        return bytes(v)
    return v


# ----------------------------------------------------------------------------------------
# device
# ----------------------------------------------------------------------------------------


class _DeadDecoder:
    buf = b""

    def feed(self, data: bytes) -> list:
        return []


class SimDevice:
    """Scripted ESPHome device.

    cfg keys (all optional):
      transport: "plaintext" | "noise";  psk: base64;  name, mac
      noise_hello_name: bool (hello carries name\\0mac\\0), noise_selector: int
      hello: {api_version_major, api_version_minor, server_info, name}
      invalid_password: bool
      replies: {RequestTypeName: [spec, ...]}   spec consumed per occurrence (last one sticks)
          spec = "default" | "silent" | {"delay": s, "msgs": [[name, fields] | {"raw":...}], "then": "fin"|"rst"}
      reply_delay: default reply delay
      down: [[t0, t1], ...] intervals in which the device refuses TCP connections
      tamper: list of tamper actions applied to outgoing frame #j of a connection (see _emit)
    """

    def __init__(self, world: World, cfg: dict, pb: Any, table: wire.ProtoTable) -> None:
        self.world = world
        self.cfg = cfg or {}
        self.base_cfg = dict(self.cfg)
        self.pb = pb
        self.table = table
        self.transport = self.cfg.get("transport", "plaintext")
        self.name = self.cfg.get("name", "simdev")
        self.mac = self.cfg.get("mac", "aabbccddeeff")
        self.live_conns: list[SimConn] = []
        self.sessions = 0
        self.reply_count: dict = {}
        self.received: list = []  # (conn, name, msg)

    def reachable(self) -> bool:
        for t0, t1 in self.cfg.get("down", []):
            if t0 <= self.world.now < t1:
                return False
        return True

    # connection lifecycle -----------------------------------------------------------
    def on_connect(self, conn: SimConn) -> None:
        pa = self.base_cfg.get("persona_at")
        if pa is not None:
            ov = {}
            for ent in pa:
                if ent["from"] <= self.world.now < ent["to"]:
                    ov = ent["cfg"]
                    break
            self.cfg = {**self.base_cfg, **ov}
            self.transport = self.cfg.get("transport", "plaintext")
            self.reply_count = {}
        sess = self.base_cfg.get("sessions")
        if sess:
            # per-session persona: overrides for accepted connection #k (last one sticks)
            ov = sess[min(self.sessions, len(sess) - 1)]
            self.cfg = {**self.base_cfg, **ov}
            self.transport = self.cfg.get("transport", "plaintext")
            self.reply_count = {}
        self.sessions += 1
        self.live_conns.append(conn)
        self.world.max_live = max(getattr(self.world, "max_live", 0), len(self.live_conns))
        st = conn.dstate
        st["seen_hello"] = False
        st["authed"] = False
        st["out_idx"] = 0
        if self.transport == "noise":
            st["dec"] = wire.NoiseOuterDecoder()
            st["phase"] = "hello"
            st["noise"] = None
        else:
            st["dec"] = wire.PlainDecoder()
            st["phase"] = "data"
        self.world.rec("dev_accept", conn=conn.cid)
        for act in self.cfg.get("on_connect", []):
            self._run_action(conn, act)

    def conn_closed(self, conn: SimConn) -> None:
        if conn in self.live_conns:
            self.live_conns.remove(conn)
            self.world.rec("dev_conn_end", conn=conn.cid)

    def on_client_closed(self, conn: SimConn) -> None:
        if conn.alive_dev:
            conn.alive_dev = False
            self.conn_closed(conn)

    # receive ------------------------------------------------------------------------
    def on_bytes(self, conn: SimConn, data: bytes) -> None:
        st = conn.dstate
        w = self.world
        try:
            if self.transport == "plaintext":
                if st["dec"].buf == b"" and data[:1] == b"\x01" and not st.get("garbage_seen"):
                    # a noise client talking to a plaintext device: the real device answers
                    # with a plaintext error? It simply fails to parse; we model: close.
                    pass
                frames = st["dec"].feed(data)
                for mtype, payload in frames:
                    self._on_frame(conn, mtype, payload)
            else:
                for fr in st["dec"].feed(data):
                    self._on_noise_frame(conn, fr)
        except wire.WireError as exc:
            w.rec("dev_wire_error", conn=conn.cid, err=str(exc))
            st["wire_error"] = str(exc)
            mode = self.cfg.get("on_wire_error", "close")
            st["dec"] = _DeadDecoder()
            if mode == "close":
                conn.device_close("fin")
            elif mode == "rst":
                conn.device_close("rst")
            elif mode == "reply_plain":
                # a plaintext device answering garbage with a plaintext frame, then closing
                self._emit_raw(conn, wire.plain_frame(2, b""), {"name": "#plain_reply", "kind": "garbage"})
                conn.device_close("fin")
            elif mode == "reply_noise_error":
                # a noise device answering a plaintext client with its error frame, then closing
                self._emit_raw(conn, wire.noise_outer(b"\x01Bad indicator byte"), {"name": "#requires_encryption", "kind": "garbage"})
                conn.device_close("fin")

    def _on_noise_frame(self, conn: SimConn, fr: bytes) -> None:
        st = conn.dstate
        w = self.world
        if st["phase"] == "hello":
            # client hello frame (empty in practice)
            st["phase"] = "handshake"
            if self.cfg.get("silent_noise") == "hello":
                w.fire("silence_noise_hello")
                st["phase"] = "mute"
                return
            sel = self.cfg.get("noise_selector", 1)
            hello = bytes([sel])
            if self.cfg.get("noise_hello_name", True):
                raw_name = bytes.fromhex(self.cfg["noise_name_hex"]) if "noise_name_hex" in self.cfg else self.cfg.get("noise_name", self.name).encode()
                hello += raw_name + b"\x00" + self.mac.encode() + b"\x00"
            if self.cfg.get("noise_empty_hello"):
                hello = b""
            self._emit_raw(conn, wire.noise_outer(hello), {"name": "#noise_hello", "kind": "hello"}, latency=self.cfg.get("noise_hello_latency"))
            return
        if st["phase"] == "handshake":
            if not fr or fr[0] != 0:
                w.rec("dev_wire_error", conn=conn.cid, err="bad handshake marker")
                conn.device_close("fin")
                return
            psk = base64.b64decode(self.cfg.get("psk", ""))
            seed = (self.cfg.get("eph_seed", "seed") + conn.cid).encode()
            resp = wire.NoiseResponder(psk, eph_seed=seed)
            reject = self.cfg.get("noise_reject")
            try:
                if reject:
                    raise wire.NoiseAuthError(reject)
                resp.read_msg1(fr[1:])
            except wire.NoiseAuthError as exc:
                w.rec("dev_noise_reject", conn=conn.cid, err=str(exc))
                text = str(exc).encode()
                self._emit_raw(conn, wire.noise_outer(b"\x01" + text), {"name": "#noise_error", "kind": "hs_error"}, latency=self.cfg.get("noise_hs_latency"))
                st["phase"] = "dead"
                if self.cfg.get("close_after_reject", True):
                    conn.device_close("fin")
                return
            if self.cfg.get("silent_noise") == "handshake":
                w.fire("silence_noise_handshake")
                st["phase"] = "mute"
                return
            msg2 = resp.write_msg2(bytes.fromhex(self.cfg.get("noise_hs_payload", "")))
            if self.cfg.get("noise_hs_epub"):
                # a deviating responder: its ephemeral public key replaced (e.g. by a low-order curve point)
                msg2 = bytes.fromhex(self.cfg["noise_hs_epub"]) + msg2[32:]
            st["noise"] = resp
            st["phase"] = "data"
            st["recv_n"] = 0
            self._emit_raw(conn, wire.noise_outer(b"\x00" + msg2), {"name": "#noise_handshake", "kind": "handshake"}, latency=self.cfg.get("noise_hs_latency"))
            w.rec("dev_noise_ready", conn=conn.cid)
            for act in self.cfg.get("on_handshake", []):
                self._run_action(conn, act)
            return
        if st["phase"] == "data":
            resp = st["noise"]
            n_before = resp.recv.n
            try:
                pt = resp.recv.dec(b"", fr)
            except Exception:
                w.rec("dev_wire_error", conn=conn.cid, err=f"AEAD failure at nonce {n_before}")
                st["wire_error"] = f"AEAD failure at nonce {n_before}"
                st["phase"] = "dead"
                conn.device_close("fin")
                return
            if len(pt) < 4:
                raise wire.WireError("short inner frame")
            mtype = (pt[0] << 8) | pt[1]
            ln = (pt[2] << 8) | pt[3]
            payload = pt[4:]
            if ln != len(payload):
                raise wire.WireError(f"inner length {ln} != {len(payload)}")
            w.rec("dev_noise_frame", conn=conn.cid, nonce=n_before)
            self._on_frame(conn, mtype, payload)

    def _on_frame(self, conn: SimConn, mtype: int, payload: bytes) -> None:
        w = self.world
        name = self.table.by_id.get(mtype)
        w.rec("dev_rx", conn=conn.cid, type=mtype, name=name, payload=payload)
        if name is None:
            conn.dstate["wire_error"] = f"undefined type {mtype}"
            return
        msg = getattr(self.pb, name)()
        try:
            msg.ParseFromString(payload)
        except Exception as exc:
            conn.dstate["wire_error"] = f"undecodable {name}: {exc}"
            return
        self.received.append((conn.cid, name, msg))
        self._react(conn, name, msg)

    # react --------------------------------------------------------------------------
    def _react(self, conn: SimConn, name: str, msg: Any) -> None:
        specs = self.cfg.get("replies", {}).get(name)
        spec: Any = "default"
        if specs:
            i = self.reply_count.get(name, 0)
            self.reply_count[name] = i + 1
            spec = specs[min(i, len(specs) - 1)]
        if spec == "silent":
            self.world.fire("silence_" + name)
            return
        if spec == "default" or (isinstance(spec, dict) and spec.get("default")):
            acts = self._default(conn, name, msg)
            delay = spec["delay"] if isinstance(spec, dict) else self.cfg.get("reply_delay", 0.0)
            for a in acts:
                a.setdefault("delay", delay)
                self._run_action(conn, a)
            return
        self._run_action(conn, spec)

    def _default(self, conn: SimConn, name: str, msg: Any) -> list[dict]:
        st = conn.dstate
        c = self.cfg
        if name == "HelloRequest":
            st["seen_hello"] = True
            h = {"api_version_major": 1, "api_version_minor": 10, "server_info": "sim 1.0", "name": self.name}
            h.update(c.get("hello", {}))
            return [{"msgs": [["HelloResponse", h]]}]
        if name == "ConnectRequest":
            bad = bool(c.get("invalid_password", False))
            if "password" in c:
                bad = msg.password != c["password"]
            st["authed"] = not bad
            return [{"msgs": [["ConnectResponse", {"invalid_password": bad}]]}]
        if name == "PingRequest":
            return [{"msgs": [["PingResponse", {}]]}]
        if name == "DisconnectRequest":
            return [{"msgs": [["DisconnectResponse", {}]], "then": "fin"}]
        if name == "DisconnectResponse":
            return [{"msgs": [], "then": "fin"}]
        if name == "DeviceInfoRequest":
            return [{"msgs": [["DeviceInfoResponse", {"name": self.name, "mac_address": self.mac, "esphome_version": "2024.9.0"}]]}]
        if name == "ListEntitiesRequest":
            ents = c.get("entities", [["ListEntitiesSwitchResponse", {"key": 1, "name": "sw", "object_id": "sw"}], ["ListEntitiesSensorResponse", {"key": 2, "name": "s", "object_id": "s"}]])
            return [{"msgs": list(ents) + [["ListEntitiesDoneResponse", {}]]}]
        if name == "SubscribeStatesRequest":
            return [{"msgs": c.get("initial_states", [["SwitchStateResponse", {"key": 1, "state": True}]])}]
        if name == "GetTimeRequest":
            return [{"msgs": [["GetTimeResponse", {"epoch_seconds": int(1_700_000_000 + self.world.now)}]]}]
        return []

    # actions ------------------------------------------------------------------------
    def _run_action(self, conn: SimConn, act: dict) -> None:
        delay = act.get("delay", 0.0)
        if delay > 0:
            self.world.after(delay, lambda: self._do_action(conn, act))
        else:
            self._do_action(conn, act)

    def _do_action(self, conn: SimConn, act: dict) -> None:
        if not conn.alive_dev:
            return
        msgs = act.get("msgs", [])
        if act.get("repeat", 1) > 1:
            msgs = list(msgs) * int(act["repeat"])  # (long sessions without a replay file of that size)
        if msgs and self.transport == "noise" and conn.dstate.get("noise") is None:
            self.world.rec("dev_unsolicited_skipped", why="noise handshake not done")
            return
        if msgs:
            self.send_msgs(conn, msgs, split=act.get("split", False), latency=act.get("latency"))
        if "raw_hex" in act:
            self.world.fire("garbage")
            self._emit_raw(conn, bytes.fromhex(act["raw_hex"]), {"name": "#garbage", "kind": "garbage"}, latency=act.get("latency"))
        then = act.get("then")
        if then:
            conn.device_close(then, latency=act.get("latency"))

    def unsolicited(self, act: dict) -> None:
        """Timed action from the scenario: applies to the newest live connection."""
        if act.get("kind") == "stall":
            return
        if not self.live_conns:
            self.world.rec("dev_unsolicited_skipped", why="no connection")
            return
        idx = act.get("conn", -1)
        conn = self.live_conns[idx if idx < len(self.live_conns) else -1]
        self._do_action(conn, act)

    # encode -------------------------------------------------------------------------
    def encode(self, conn: SimConn, item: Any) -> tuple[bytes, dict]:
        """item = [name, fields] | {"type": id, "payload_hex": ...} -> (frame bytes, meta)"""
        if isinstance(item, dict):
            mtype = item["type"]
            if "payload_gen" in item:
                payload = gen_bytes(item["payload_gen"][0], item["payload_gen"][1])
            else:
                payload = bytes.fromhex(item.get("payload_hex", ""))
            name = item.get("name", self.table.by_id.get(mtype, f"#type{mtype}"))
        else:
            name, fields = item[0], (item[1] if len(item) > 1 else {})
            mtype = self.table.by_name[name]
            payload = build_msg(self.pb, name, fields).SerializeToString()
        st = conn.dstate
        meta = {"name": name, "type": mtype, "payload": payload, "kind": "msg"}
        if self.transport == "noise" or (isinstance(item, dict) and item.get("framing") == "noise"):
            resp = st.get("noise")
            if resp is None or resp.send is None:
                raise HarnessError("device asked to send an encrypted message before the handshake")
            meta["nonce"] = resp.send.n
            ct = resp.send.enc(b"", wire.noise_inner(mtype, payload))
            return wire.noise_outer(ct), meta
        return wire.plain_frame(mtype, payload), meta

    def send_msgs(self, conn: SimConn, items: list, split: bool = False, latency: float | None = None) -> None:
        frames = []
        for it in items:
            b, meta = self.encode(conn, it)
            frames.append((b, meta))
        self._out(conn, frames, split, latency)

    def _emit_raw(self, conn: SimConn, b: bytes, meta: dict, latency: float | None = None) -> None:
        self._out(conn, [(b, meta)], False, latency)

    def _out(self, conn: SimConn, frames: list, split: bool, latency: float | None) -> None:
        """Every outgoing device frame passes here: numbering, tamper layer, emission."""
        st = conn.dstate
        tamper = self.cfg.get("tamper") or []
        if isinstance(tamper, dict):
            tamper = [tamper]
        outl: list = []
        for b, meta in frames:
            j = st["out_idx"]
            st["out_idx"] = j + 1
            meta["out_idx"] = j
            meta["wire"] = b
            emitted = [(b, meta)]
            for t in tamper:
                if t.get("frame") != j:
                    continue
                kind = t["kind"]
                self.world.fire("tamper_" + kind)
                meta["tampered"] = kind
                if kind == "flip":
                    ba = bytearray(b)
                    pos = t["pos"] % len(ba)
                    ba[pos] ^= t.get("mask", 1)
                    meta["tamper_pos"] = pos
                    emitted = [(bytes(ba), meta)]
                elif kind == "truncate":
                    n = min(t["len"], len(b))
                    meta["tamper_len"] = n
                    emitted = [(b[:n], meta)] if n else []
                    if not n:
                        meta["dropped"] = True
                elif kind == "shorten":
                    # a WELL-FORMED frame whose body is cut to its first k bytes (outer length rewritten): k = 0 is the
                    # empty frame `01 00 00`; it cannot authenticate (the tag alone is 16 bytes)
                    body = b[3 : 3 + t["len"]]
                    meta["tamper_len"] = len(body)
                    emitted = [(b[:1] + len(body).to_bytes(2, "big") + body, meta)]
                elif kind == "drop":
                    emitted = []
                    meta["dropped"] = True
                elif kind == "dup":
                    m2 = dict(meta)
                    m2["replay"] = True
                    emitted = [(b, meta), (b, m2)]
                elif kind == "swap":
                    st["held"] = (b, meta)
                    emitted = []
            held = st.get("held")
            if held is not None and held[1] is not meta:
                st.pop("held")
                emitted = emitted + [held]
            outl.extend(emitted)
            if meta.get("dropped"):
                self.world.rec("dev_tx", conn=conn.cid, idx=-1, name=meta["name"], type=meta.get("type"), payload=meta.get("payload", b""), tampered=meta.get("tampered"), end=-1, kind=meta.get("kind"), out_idx=j, dropped=True)
        if not outl:
            return
        if split:
            for b, meta in outl:
                self._push(conn, b, [meta], latency)
            return
        data = b""
        metas = []
        for b, meta in outl:
            meta["end"] = conn.d2c_off + len(data) + len(b)
            data += b
            metas.append(meta)
        conn.device_send(data, metas, latency)
        for m in metas:
            self._rec_tx(conn, m)

    def _rec_tx(self, conn: SimConn, m: dict) -> None:
        self.world.rec("dev_tx", conn=conn.cid, idx=m["idx"], name=m["name"], type=m.get("type"), payload=m.get("payload", b""), tampered=m.get("tampered"), end=m["end"], kind=m.get("kind"), out_idx=m.get("out_idx"), replay=bool(m.get("replay")), tamper_pos=m.get("tamper_pos"), wire_len=len(m.get("wire", b"")))

    def _push(self, conn: SimConn, b: bytes, metas: list[dict], latency: float | None = None) -> None:
        off = conn.d2c_off
        for m in metas:
            m["end"] = off + len(b)
        conn.device_send(b, metas, latency)
        for m in metas:
            self._rec_tx(conn, m)
