"""Scenario interpreter: builds a world from a scenario document, runs it, audits it.

The engine draws nothing at random. A scenario fixes every choice; the history it
returns is a pure function of (scenario, library sources).
"""
from __future__ import annotations

import asyncio
import copy
import gc
from typing import Any, Callable

from . import wire
from .core import CapExceeded, EndOfRun, HarnessCallback, HarnessError, Quiescent, SimLoop, World
from .device import Resolver, SimDevice, SimNet, build_msg, make_oserror
from .env import exc_info, lib, set_world
from .zcfake import FakeAsyncZeroconf, FakeZeroconf, sim_sleep


_table: list[wire.ProtoTable | None] = [None]


def proto_table() -> wire.ProtoTable:
    if _table[0] is None:
        _table[0] = wire.ProtoTable(lib().pkg_dir + "/api.proto")
    return _table[0]


STEP_HANDLERS: dict[str, Callable] = {}


def step(name: str) -> Callable:
    def deco(fn: Callable) -> Callable:
        STEP_HANDLERS[name] = fn
        return fn

    return deco


class Actor:
    def __init__(self, ctx: "Ctx", spec: dict) -> None:
        self.ctx = ctx
        self.spec = spec
        self.aid = spec["id"]
        self.task: asyncio.Task | None = None
        self.cancel_requested = 0
        self.current: int | None = None
        self.done = False
        self.vars: dict = {}

    def start(self) -> None:
        ctx = self.ctx
        if self.task is not None and not self.task.done():
            # one instance at a time: op records are keyed by (actor, step), two live instances would be indistinguishable
            ctx.world.rec("actor_start_ignored", actor=self.aid)
            return
        loop = ctx.world.loop
        coro = self._run()
        eager = self.spec.get("eager", ctx.world.knobs.get("eager", True))
        name = f"actor-{self.aid}"
        if eager:
            self.task = asyncio.Task(coro, loop=loop, name=name, eager_start=True)
        else:
            self.task = loop.create_task(coro, name=name)
        ctx.actor_tasks.add(self.task)

    async def _run(self) -> None:
        w = self.ctx.world
        steps = self.spec.get("steps", [])
        try:
            for i, st in enumerate(steps):
                self.current = i
                kind = st["do"]
                w.rec("op_start", actor=self.aid, i=i, do=kind, args={k: v for k, v in st.items() if k != "do"})
                h = STEP_HANDLERS.get(kind)
                if h is None:
                    raise HarnessError(f"unknown step {kind}")
                try:
                    val = await h(self.ctx, self, st)
                except asyncio.CancelledError as exc:
                    requested = self.cancel_requested > 0
                    w.rec("op_end", actor=self.aid, i=i, do=kind, ok=False, cancelled=True, requested=requested, err=exc_info(exc))
                    self.current = None
                    if kind in PROBED_OPS and self.ctx.scn.get("probe_ops"):
                        _post_op_probe(self.ctx, self.aid, i)
                    if requested:
                        self.cancel_requested -= 1
                        if st.get("stop_on_cancel", True):
                            break
                        continue
                    raise
                except HarnessError:
                    raise
                except Exception as exc:
                    w.rec("op_end", actor=self.aid, i=i, do=kind, ok=False, err=exc_info(exc))
                    self.current = None
                    if kind in PROBED_OPS and self.ctx.scn.get("probe_ops"):
                        _post_op_probe(self.ctx, self.aid, i)
                    if st.get("stop_on_error", self.spec.get("stop_on_error", False)):
                        break
                    continue
                w.rec("op_end", actor=self.aid, i=i, do=kind, ok=True, value=val)
                self.current = None
                if kind in PROBED_OPS and self.ctx.scn.get("probe_ops"):
                    _post_op_probe(self.ctx, self.aid, i)
        except HarnessError as exc:
            self.ctx.harness_errors.append(repr(exc))
        finally:
            self.done = True
            w.rec("actor_done", actor=self.aid)


PROBED_OPS = {"request", "conn.request", "device_info", "list_entities", "ble.read", "ble.write", "ble.notify", "ble.services", "ble.pair", "ble.unpair", "ble.clear_cache", "ble.disconnect", "ble.connect"}


def _post_op_probe(ctx: "Ctx", aid: str, i: int, hops: int = 3) -> None:
    """A few zero-time turns after a request-response operation ended (however it ended), record how many
    request timeout timers are armed and how many such operations are still running: every running call owns one."""
    from .core import cb_name

    w = ctx.world

    def hop(n: int) -> None:
        if n > 0:
            w.schedule("post", lambda: hop(n - 1))
            return
        armed = 0
        for h in w.loop._scheduled:
            if h._cancelled or isinstance(h._callback, HarnessCallback):
                continue
            if cb_name(h._callback).endswith("handle_timeout"):
                armed += 1
        running = 0
        for a in ctx.actors.values():
            # connect phases (handshake / hello-login wait) and disconnect (DisconnectResponse wait) own one such timer too
            if a.current is not None and a.spec.get("steps", [])[a.current]["do"] in (PROBED_OPS | {"connect", "finish", "conn.finish", "disconnect", "conn.disconnect"}):
                running += 1
        waiters = sum(len(c._read_exception_futures) for c in getattr(w, "conns", []))
        w.rec("post_op_timers", actor=aid, i=i, armed=armed, running=running, waiters=waiters)

    if w.loop is not None and not w.loop.is_closed():
        hop(hops)


class Ctx:
    """Everything a running scenario owns."""

    def __init__(self, scn: dict) -> None:
        self.scn = scn
        self.L = lib()
        self.world = World(max_turns=scn.get("max_turns", 20000), max_time=scn.get("max_time", 7200.0))
        self.world.knobs = dict(scn.get("knobs", {}))
        wr = self.world.knobs.get("write_raises")
        if isinstance(wr, str):
            self.world.knobs["write_raises"] = {"RuntimeError": RuntimeError, "OSError": OSError}[wr]
        self.actors: dict[str, Actor] = {}
        self.actor_tasks: set = set()
        self.harness_errors: list[str] = []
        self.client: Any = None
        self.clients: dict = {}
        self.conn_objs: dict = {}
        self.devices: dict[str, SimDevice] = {}
        self.subs: dict = {}
        self.extra: dict = {}
        self.end_reason = ""


# ----------------------------------------------------------------------------------------
# running
# ----------------------------------------------------------------------------------------


def build(scn: dict) -> Ctx:
    ctx = Ctx(scn)
    w = ctx.world
    set_world(w)
    loop = SimLoop(w)
    asyncio.set_event_loop(loop)
    L = ctx.L
    L.set_debug_logging(bool(w.knobs.get("debug", False)))
    table = proto_table()
    netcfg = scn.get("net", {})
    devs = scn.get("devices")
    if devs is None:
        devs = {"*": scn.get("device", {})}
    for addr, dcfg in devs.items():
        ctx.devices[addr] = SimDevice(w, dcfg, L.pb, table)
    w.net = SimNet(w, netcfg, ctx.devices)
    w.resolver = Resolver(w, netcfg.get("resolver", {}))
    w.mdns = netcfg.get("mdns", {})
    w.end_time = scn.get("end", 3600.0)

    # client(s)
    ccfg = scn.get("client")
    if ccfg is not None:
        ctx.client = make_client(ctx, ccfg)
        ctx.clients["0"] = ctx.client

    # actors
    for a in scn.get("actors", []):
        actor = Actor(ctx, a)
        ctx.actors[actor.aid] = actor
        if a.get("at") == "manual":
            continue
        _arm(ctx, a.get("at", {"t": 0.0}), lambda actor=actor, a=a: w.schedule(a.get("phase", "pre"), actor.start))

    # environment events
    for ev in scn.get("events", []):
        _arm(ctx, ev.get("at", {"t": 0.0}), lambda ev=ev: _apply_event(ctx, ev))
    return ctx


def make_client(ctx: Ctx, ccfg: dict) -> Any:
    L = ctx.L
    zc = None
    zmode = ccfg.get("zeroconf")
    if zmode == "zeroconf":
        zc = FakeZeroconf("app")
    elif zmode == "async":
        zc = FakeAsyncZeroconf(zc=FakeZeroconf("app"))
    ctx.extra["app_zc"] = zc
    addrs = ccfg.get("addresses", ["10.0.0.5"])
    other = None
    if ccfg.get("ctor_loop") == "other":
        # the application builds its client in synchronous set-up code, before the loop that will run the sessions exists
        # (client = APIClient(...); asyncio.run(main(client))): another, never running loop is current in the constructor
        other = asyncio.new_event_loop()
        ctx.extra.setdefault("other_loops", []).append(other)
        asyncio.set_event_loop(other)
    try:
        cli = _construct_client(L, ccfg, addrs, zc)
    finally:
        if other is not None:
            asyncio.set_event_loop(ctx.world.loop)
    if ctx.world.knobs.get("debug"):
        cli.set_debug(True)
    return cli


def _construct_client(L: Any, ccfg: dict, addrs: list, zc: Any) -> Any:
    return L.client.APIClient(
        addrs[0],
        ccfg.get("port", 6053),
        ccfg.get("password"),
        client_info=ccfg.get("client_info", "simclient"),
        keepalive=ccfg.get("keepalive", 20.0),
        zeroconf_instance=zc,
        noise_psk=ccfg.get("noise_psk"),
        expected_name=ccfg.get("expected_name"),
        addresses=addrs if len(addrs) > 1 or ccfg.get("use_addresses") else None,
    )


def _arm(ctx: Ctx, trig: dict, fn: Callable[[], None]) -> None:
    w = ctx.world
    if "t" in trig:
        w.at(trig["t"], fn)
    elif "turn" in trig:
        w.at_turn(trig["turn"], fn)
    elif "on" in trig:
        delay = trig.get("delay", 0.0)
        turns = trig.get("turns", 0)

        def fire(ev: tuple) -> None:
            if delay > 0:
                w.after(delay, fn)
            elif turns > 0:
                w.at_turn(w.turn + turns, fn)
            else:
                fn()

        w.watch(trig["on"], trig.get("match", {}), trig.get("nth", 1), fire)
    else:
        raise HarnessError(f"bad trigger {trig}")


def _newest_conn(ctx: Ctx, ev: dict) -> Any:
    conns = ctx.world.net.conns
    if not conns:
        return None
    idx = ev.get("conn", -1)
    try:
        return conns[idx]
    except IndexError:
        return conns[-1]


def _apply_event(ctx: Ctx, ev: dict) -> None:
    w = ctx.world
    do = ev["do"]
    if do == "dev":
        dev = ctx.devices.get(ev.get("device", "*")) or next(iter(ctx.devices.values()))
        w.rec("ev_dev", act={k: v for k, v in ev["act"].items() if k != "msgs"}, n_msgs=len(ev["act"].get("msgs", [])))
        dev.unsolicited(ev["act"])
    elif do == "fault":
        kind = ev["kind"]
        conn = _newest_conn(ctx, ev)
        w.rec("ev_fault", kind=kind)
        if kind in ("fin", "rst", "etimedout", "ehostunreach", "eio"):
            if conn is not None and conn.alive_dev:
                conn.device_close(kind, latency=ev.get("latency", 0.0))
        elif kind == "tx_error":
            if conn is not None and not conn.sock.closed:
                conn.sock.tx_error = make_oserror(w, ev.get("err", "epipe"))
                w.rec("tx_error_armed", conn=conn.cid, fault=conn.sock.tx_error.sim_fault_id)
        elif kind == "tx_short":
            if conn is not None:
                conn.sock.tx_short = ev.get("n", 1)
        elif kind == "tx_block":
            if conn is not None:
                conn.sock.tx_blocked = True
                w.after(ev.get("d", 1.0), conn.sock._unblock)
        elif kind == "stall":
            d = ev.get("d", 1.0)

            def stall() -> None:
                w.fire("stall")
                w.rec("stall", d=d)
                w.now += d

            w.schedule(ev.get("phase", "pre"), stall)
        elif kind == "write_raises":
            w.knobs["write_raises"] = {"RuntimeError": RuntimeError, "OSError": OSError}[ev.get("exc", "RuntimeError")]
            w.knobs["write_raises_now"] = ev.get("always", False)
            w.rec("write_raises_armed", always=bool(ev.get("always", False)))
        elif kind == "mdns":
            _deliver_mdns(ctx, ev)
        elif kind == "knob":
            w.knobs[ev["name"]] = ev.get("value")
        else:
            raise HarnessError(f"unknown fault {kind}")
    elif do == "poke":
        w.schedule(ev.get("phase", "pre"), lambda: _poke(ctx, ev))
    elif do == "start_actor":
        a = ctx.actors[ev["actor"]]
        w.schedule(ev.get("phase", "pre"), a.start)
    else:
        raise HarnessError(f"unknown event {do}")


def _deliver_mdns(ctx: Ctx, ev: dict) -> None:
    import zeroconf as zc_real

    w = ctx.world
    recs = []
    for r in ev.get("records", []):
        if r["type"] == "PTR":
            rec = zc_real.DNSPointer(r.get("name", "_esphomelib._tcp.local."), zc_real.const._TYPE_PTR, zc_real.const._CLASS_IN, 4500, r["alias"])
        elif r["type"] == "TXT":
            rec = zc_real.DNSText(r["name"], zc_real.const._TYPE_TXT, zc_real.const._CLASS_IN, 4500, b"\x0bversion=1.0")
        elif r["type"] == "SRV":
            rec = zc_real.DNSService(r["name"], zc_real.const._TYPE_SRV, zc_real.const._CLASS_IN, 120, 0, 0, 6053, r.get("server", "other.local."))
        elif r["type"] == "AAAA":
            import socket as _s

            rec = zc_real.DNSAddress(r["name"], zc_real.const._TYPE_AAAA, zc_real.const._CLASS_IN, 120, _s.inet_pton(_s.AF_INET6, r.get("addr", "fd00::5")))
        else:
            import socket as _s

            rec = zc_real.DNSAddress(r["name"], zc_real.const._TYPE_A, zc_real.const._CLASS_IN, 120, _s.inet_aton(r.get("addr", "10.0.0.5")))
        # python-zeroconf fills `old` with the copy it still holds in its cache (a device that re-announces identical records
        # after a reboot): same content, another object
        recs.append(zc_real.RecordUpdate(rec, copy.copy(rec) if r.get("cached") else None))
    def deliver() -> None:
        n = 0
        for z in list(getattr(w, "zcs", [])):
            if z.listeners and not z.closed:
                n += len(z.listeners)
        w.rec("mdns_records", n_listeners=n, records=ev.get("records", []))
        if n:
            w.fire("mdns_record_delivered")
        for z in list(getattr(w, "zcs", [])):
            if z.listeners and not z.closed:
                z.deliver(recs)

    w.schedule(ev.get("phase", "pre"), deliver)


def _poke(ctx: Ctx, ev: dict) -> None:
    w = ctx.world
    what = ev["what"]
    w.rec("poke", what=what, target=ev.get("target"))
    try:
        if what == "cancel":
            a = ctx.actors[ev["target"]]
            if a.task is not None and not a.task.done() and a.current is not None:
                a.cancel_requested += 1
                a.task.cancel("harness cancel")
                w.fire("caller_cancel")
                w.rec("cancel_sent", actor=a.aid, i=a.current)
        elif what == "force_disconnect":
            cli = ctx.client
            if cli is None:
                return  # the application dropped its client object
            conn = cli._connection
            w.rec("op_start", actor="poke", i=-1, do="force_disconnect", args={"has_conn": conn is not None})
            _rec_disc(ctx, cli, True)
            # the public API: APIClient.disconnect(force=True) has no await on the force path,
            # so the coroutine is driven to completion synchronously inside this callback
            coro = cli.disconnect(force=True)
            try:
                coro.send(None)
            except StopIteration:
                pass
            else:
                coro.close()
                raise HarnessError("disconnect(force=True) suspended")
            w.rec("op_end", actor="poke", i=-1, do="force_disconnect", ok=True, value=None)
        elif what == "conn.force_disconnect":
            conn = ctx.conn_objs[ev.get("target", "k0")]
            w.rec("op_start", actor="poke", i=-1, do="conn.force_disconnect", args={})
            w.rec("disc_call", conn=conn._oid, force=True, state=conn.connection_state.name)
            conn.force_disconnect()
            w.rec("op_end", actor="poke", i=-1, do="conn.force_disconnect", ok=True, value=None)
        elif what == "call":
            ev["fn"](ctx)
        else:
            raise HarnessError(f"unknown poke {what}")
    except HarnessError as exc:
        ctx.harness_errors.append(repr(exc))
    except Exception as exc:
        w.rec("op_end", actor="poke", i=-1, do=what, ok=False, err=exc_info(exc))


# ----------------------------------------------------------------------------------------
# audit
# ----------------------------------------------------------------------------------------


def _cb_name(cb: Any) -> str:
    f = cb
    for _ in range(4):
        if hasattr(f, "func"):
            f = f.func
    q = getattr(f, "__qualname__", None) or type(f).__name__
    mod = getattr(f, "__module__", "") or ""
    return f"{mod}.{q}"


def audit(ctx: Ctx, reason: str) -> dict:
    w = ctx.world
    loop = w.loop
    timers = []
    for h in loop._scheduled:
        if h._cancelled:
            continue
        if isinstance(h._callback, HarnessCallback):
            continue
        timers.append({"cb": _cb_name(h._callback), "when": round(h._when, 6)})
    timers.sort(key=lambda d: (d["when"], d["cb"]))
    tasks = []
    for t in asyncio.all_tasks(loop):
        if t.done():
            continue
        coro = t.get_coro()
        tasks.append({"name": t.get_name() if t.get_name().startswith(("actor-", "simtask-")) else "lib:" + t.get_name()[:60], "coro": getattr(coro, "__qualname__", str(coro)), "actor": t in ctx.actor_tasks})
    tasks.sort(key=lambda d: (d["coro"], d["name"]))
    open_socks = sorted(fd for fd, s in w.sockets.items() if not s.closed)
    open_transports = sorted(tr._sim_fd for tr in getattr(w, "transports", []) if not tr.is_closing())
    pending_ops = sorted([a.aid, a.current, a.spec["steps"][a.current]["do"]] for a in ctx.actors.values() if a.task is not None and not a.done and a.current is not None)
    conns = []
    for c in getattr(w, "conns", []):
        try:
            nh = sum(len(v) for v in c._message_handlers.values())
            nf = len(c._read_exception_futures)
            extra = {
                "ping_timer": c._ping_timer is not None,
                "pong_timer": c._pong_timer is not None,
                "socket": c._socket is not None,
                "frame_helper": c._frame_helper is not None,
            }
        except AttributeError as exc:
            raise HarnessError(f"audit: connection internals renamed: {exc}")
        conns.append({"conn": c._oid, "state": c.connection_state.name, "is_connected": bool(c.is_connected), "handlers": nh, "waiters": nf, **extra})
    zcs = [{"zc": z.zid, "owner": z.owner, "closed": z.closed, "listeners": len(z.listeners)} for z in getattr(w, "zcs", [])]
    client_conn = None
    if ctx.client is not None:
        client_conn = ctx.client._connection is not None
    out = {
        "reason": reason,
        "timers": timers,
        "tasks": tasks,
        "open_socks": open_socks,
        "open_transports": open_transports,
        "pending_ops": pending_ops,
        "conns": conns,
        "zcs": zcs,
        "client_has_conn": client_conn,
        "loop_exceptions": len(loop._sim_exceptions),
        "max_live_device_sessions": getattr(w, "max_live", 0),
    }
    w.rec("audit", **out)
    return out


class Run:
    def __init__(self, ctx: Ctx, reason: str, audit_: dict) -> None:
        self.ctx = ctx
        self.world = ctx.world
        self.history = ctx.world.history
        self.reason = reason
        self.audit = audit_
        self._digest: str | None = None
        self.harness_errors = ctx.harness_errors
        self.turns = ctx.world.turn
        self.sim_time = ctx.world.now
        self.fired = dict(ctx.world.fired)
        self.probes = dict(ctx.world.probes)


def _run_digest(self: Run) -> str:
    if self._digest is None:
        self._digest = self.world.digest()
    return self._digest


Run.digest = property(_run_digest)  # type: ignore[attr-defined]


def run_scenario(scn: dict) -> Run:
    gc_was = gc.isenabled()
    gc.disable()
    ctx = build(scn)
    w = ctx.world
    loop = w.loop
    reason = "?"
    try:
        try:
            loop.run_forever()
            reason = "stopped"
        except Quiescent:
            reason = "quiescent"
        except EndOfRun:
            reason = "end"
        except CapExceeded as exc:
            reason = "cap"
            ctx.harness_errors.append(f"cap exceeded: {exc}")
        except HarnessError as exc:
            reason = "harness"
            ctx.harness_errors.append(repr(exc))
        ctx.end_reason = reason
        w.rec("run_end", reason=reason)
        try:
            a = audit(ctx, reason)
        except HarnessError as exc:
            ctx.harness_errors.append(repr(exc))
            a = {}
        run = Run(ctx, reason, a)
    finally:
        _teardown(ctx)
        if gc_was:
            gc.enable()
    return run


def _teardown(ctx: Ctx) -> None:
    w = ctx.world
    loop = w.loop
    for other in ctx.extra.get("other_loops", []):
        other.close()
    w.rec = lambda *a, **k: (0, 0, 0.0, "", {})  # type: ignore[method-assign]
    w.watchers.clear()
    w.agenda.clear()
    w.turn_actions.clear()
    w.max_turns = w.turn + 200
    try:
        for _ in range(3):
            pend = [t for t in asyncio.all_tasks(loop) if not t.done()]
            if not pend:
                break
            for t in pend:
                t.cancel()
            try:
                loop._selector.select = lambda timeout=None: []  # type: ignore[method-assign]
                for _ in range(20):
                    loop.call_soon(loop.stop)
                    loop.run_forever()
                    if all(t.done() for t in pend):
                        break
            except BaseException:
                break
        for t in asyncio.all_tasks(loop):
            if t.done() and not t.cancelled():
                t.exception()
    except BaseException:
        pass
    finally:
        try:
            for h in loop._scheduled:
                h.cancel()
            loop.close()
        except BaseException:
            pass
        asyncio.set_event_loop(None)
        set_world(None)


# ----------------------------------------------------------------------------------------
# step handlers: client level
# ----------------------------------------------------------------------------------------


def _cli(ctx: Ctx, st: dict) -> Any:
    return ctx.clients[st.get("client", "0")]


def _stop_cb(ctx: Ctx, a: "Actor", st: dict) -> Any:
    if st.get("no_on_stop"):
        return None
    if st.get("stop_kind") == "plain_raises":
        # an application bug: a plain function where a coroutine function is expected, and it raises
        def broken(expected: bool) -> None:
            ctx.world.rec("user_on_stop", tag=st.get("stop_tag", a.aid), expected=bool(expected), raises=True)
            raise RuntimeError("application stop callback failed")

        return broken
    return _user_on_stop(ctx, st.get("stop_tag", a.aid))


def _user_on_stop(ctx: Ctx, tag: str, client_key: str = "0") -> Callable:
    async def on_stop(expected: bool) -> None:
        w = ctx.world
        w.rec("user_on_stop", tag=tag, expected=bool(expected))
        if ctx.scn.get("on_stop_delay"):
            # the application's stop handling takes its time (it awaits something): later sessions may end meanwhile
            await sim_sleep(w, float(ctx.scn["on_stop_delay"]))
            w.rec("user_on_stop_done", tag=tag)
        plan = ctx.scn.get("on_stop_do")
        if not plan:
            return
        # the application reconnects from inside its stop callback (the session has ended: C19 says it must be accepted)
        n = ctx.extra["onstop_n"] = ctx.extra.get("onstop_n", 0) + 1
        if n > plan.get("max", 1):
            return
        for _ in range(plan.get("yields", 0)):
            fut = w.loop.create_future()
            w.loop.call_soon(HarnessCallback(lambda fut=fut: (not fut.done()) and fut.set_result(None)))
            await fut
        do = plan.get("do", "start")
        w.rec("op_start", actor="onstop", i=n, do=do, args={"yields": plan.get("yields", 0)})
        try:
            cli = ctx.clients[client_key]
            if do == "start":
                await cli.start_connection(on_stop=_user_on_stop(ctx, tag, client_key))
            else:
                await cli.connect(on_stop=_user_on_stop(ctx, tag, client_key), login=plan.get("login", False))
        except asyncio.CancelledError as exc:
            w.rec("op_end", actor="onstop", i=n, do=do, ok=False, cancelled=True, requested=False, err=exc_info(exc))
            raise
        except Exception as exc:
            w.rec("op_end", actor="onstop", i=n, do=do, ok=False, err=exc_info(exc))
        else:
            w.rec("op_end", actor="onstop", i=n, do=do, ok=True, value=None)

    return on_stop


@step("sleep")
async def _s_sleep(ctx: Ctx, a: Actor, st: dict) -> Any:
    await sim_sleep(ctx.world, st.get("d", 0.0))


@step("yield")
async def _s_yield(ctx: Ctx, a: Actor, st: dict) -> Any:
    for _ in range(st.get("n", 1)):
        fut = ctx.world.loop.create_future()
        ctx.world.loop.call_soon(HarnessCallback(lambda fut=fut: (not fut.done()) and fut.set_result(None)))
        await fut


@step("wait")
async def _s_wait(ctx: Ctx, a: Actor, st: dict) -> Any:
    """Wait until a history event occurs (harness-side, no library involvement)."""
    fut = ctx.world.loop.create_future()
    ctx.world.watch(st["on"], st.get("match", {}), st.get("nth", 1), lambda ev: (not fut.done()) and fut.set_result(None))
    await fut


@step("connect")
async def _s_connect(ctx: Ctx, a: Actor, st: dict) -> Any:
    await _cli(ctx, st).connect(on_stop=_stop_cb(ctx, a, st), login=st.get("login", False))


@step("start")
async def _s_start(ctx: Ctx, a: Actor, st: dict) -> Any:
    await _cli(ctx, st).start_connection(on_stop=_stop_cb(ctx, a, st))


@step("cmd")
async def _s_cmd(ctx: Ctx, a: Actor, st: dict) -> Any:
    """Any synchronous command method of the client by name (fire and forget)."""
    kw = dict(st.get("kwargs", {}))
    if st["name"] == "send_voice_assistant_audio":
        kw["data"] = bytes.fromhex(kw.get("data", ""))
    getattr(_cli(ctx, st), st["name"])(*st.get("args", []), **kw)


@step("drop_client")
async def _s_drop_client(ctx: Ctx, a: Actor, st: dict) -> Any:
    """The application lets go of its APIClient object while the session lives on (the event loop keeps the
    transport, the protocol and the connection alive)."""
    ctx.clients.pop(st.get("client", "0"), None)
    ctx.client = None


@step("set_expected_name")
async def _s_set_expected(ctx: Ctx, a: Actor, st: dict) -> Any:
    _cli(ctx, st).expected_name = st.get("name")


@step("finish")
async def _s_finish(ctx: Ctx, a: Actor, st: dict) -> Any:
    cli = _cli(ctx, st)
    if cli._connection is None:
        # API misuse (finish without a successful start) is not generated; refuse politely
        raise ctx.L.core.APIConnectionError("harness: finish without a connection skipped")
    await cli.finish_connection(login=st.get("login", False))


def _rec_disc(ctx: Ctx, cli: Any, force: bool) -> None:
    conn = cli._connection
    ctx.world.rec("disc_call", conn=getattr(conn, "_oid", None), force=force, state=conn.connection_state.name if conn is not None else None)


@step("disconnect")
async def _s_disconnect(ctx: Ctx, a: Actor, st: dict) -> Any:
    cli = _cli(ctx, st)
    _rec_disc(ctx, cli, st.get("force", False))
    await cli.disconnect(force=st.get("force", False))


@step("device_info")
async def _s_device_info(ctx: Ctx, a: Actor, st: dict) -> Any:
    info = await _cli(ctx, st).device_info()
    return {"name": info.name}


@step("list_entities")
async def _s_list(ctx: Ctx, a: Actor, st: dict) -> Any:
    ents, svcs = await _cli(ctx, st).list_entities_services()
    return {"entities": [[type(e).__name__, e.key] for e in ents], "services": len(svcs)}


@step("subscribe_states")
async def _s_sub_states(ctx: Ctx, a: Actor, st: dict) -> Any:
    tag = st.get("tag", a.aid)

    def on_state(state: Any) -> None:
        d = {"tag": tag, "cls": type(state).__name__, "key": state.key}
        if hasattr(state, "data") and isinstance(getattr(state, "data"), (bytes, bytearray)):
            d["data"] = bytes(state.data)
        if hasattr(state, "state"):
            d["state"] = repr(state.state)
        ctx.world.rec("cb_state", **d)

    _cli(ctx, st).subscribe_states(on_state)


@step("subscribe_logs")
async def _s_sub_logs(ctx: Ctx, a: Actor, st: dict) -> Any:
    tag = st.get("tag", a.aid)
    _cli(ctx, st).subscribe_logs(lambda msg: ctx.world.rec("cb_log", tag=tag, message=bytes(msg.message) if isinstance(msg.message, bytes) else str(msg.message)))


@step("switch_command")
async def _s_switch(ctx: Ctx, a: Actor, st: dict) -> Any:
    _cli(ctx, st).switch_command(st.get("key", 1), st.get("state", True))


@step("send")
async def _s_send(ctx: Ctx, a: Actor, st: dict) -> Any:
    """Send arbitrary client messages through the connection (one batch = one send_messages)."""
    conn = _cli(ctx, st)._get_connection()
    msgs = tuple(build_msg(ctx.L.pb, n, f) for n, f in st["msgs"])
    conn.send_messages(msgs)


PREDICATES: dict[str, Callable] = {
    "none": lambda spec: None,
    "always": lambda spec: (lambda m: True),
    "never": lambda spec: (lambda m: False),
    "type_is": lambda spec: (lambda m: type(m).__name__ == spec["name"]),
    "type_not": lambda spec: (lambda m: type(m).__name__ != spec["name"]),
    "key_eq": lambda spec: (lambda m: getattr(m, "key", None) == spec["key"]),
    "field_eq": lambda spec: (lambda m: getattr(m, spec["field"], None) == spec["value"]),
}


def make_pred(spec: dict | None) -> Any:
    if spec is None:
        return None
    return PREDICATES[spec["p"]](spec)


@step("request")
async def _s_request(ctx: Ctx, a: Actor, st: dict) -> Any:
    """send_messages_await_response_complex with named predicates."""
    pb = ctx.L.pb
    conn = _cli(ctx, st)._get_connection()
    msgs = tuple(build_msg(pb, n, f) for n, f in st["msgs"])
    types = tuple(getattr(pb, n) for n in st["types"])
    res = await conn.send_messages_await_response_complex(msgs, make_pred(st.get("append")), make_pred(st.get("stop")), types, st.get("timeout", 10.0))
    return [[type(m).__name__, m.SerializeToString()] for m in res]


# ----------------------------------------------------------------------------------------
# step handlers: raw connection level
# ----------------------------------------------------------------------------------------


@step("conn.new")
async def _k_new(ctx: Ctx, a: Actor, st: dict) -> Any:
    L = ctx.L
    ccfg = ctx.scn.get("client", {})
    params = L.connection.ConnectionParams(
        addresses=ccfg.get("addresses", ["10.0.0.5"]),
        port=ccfg.get("port", 6053),
        password=ccfg.get("password"),
        client_info="simclient",
        keepalive=ccfg.get("keepalive", 20.0),
        zeroconf_manager=L.zc_mod.ZeroconfManager(),
        noise_psk=ccfg.get("noise_psk"),
        expected_name=ccfg.get("expected_name"),
    )
    kid = st.get("k", "k0")

    def on_stop(expected: bool) -> None:
        ctx.world.rec("user_on_stop", tag=kid, expected=bool(expected))

    ctx.conn_objs[kid] = L.Observed(params, on_stop, False, None)
    return ctx.conn_objs[kid]._oid


@step("conn.start")
async def _k_start(ctx: Ctx, a: Actor, st: dict) -> Any:
    await ctx.conn_objs[st.get("k", "k0")].start_connection()


@step("conn.finish")
async def _k_finish(ctx: Ctx, a: Actor, st: dict) -> Any:
    await ctx.conn_objs[st.get("k", "k0")].finish_connection(login=st.get("login", False))


@step("conn.disconnect")
async def _k_disc(ctx: Ctx, a: Actor, st: dict) -> Any:
    conn = ctx.conn_objs[st.get("k", "k0")]
    ctx.world.rec("disc_call", conn=conn._oid, force=False, state=conn.connection_state.name)
    await conn.disconnect()


@step("conn.force_disconnect")
async def _k_fdisc(ctx: Ctx, a: Actor, st: dict) -> Any:
    conn = ctx.conn_objs[st.get("k", "k0")]
    ctx.world.rec("disc_call", conn=conn._oid, force=True, state=conn.connection_state.name)
    conn.force_disconnect()


@step("conn.request")
async def _k_request(ctx: Ctx, a: Actor, st: dict) -> Any:
    pb = ctx.L.pb
    conn = ctx.conn_objs[st.get("k", "k0")]
    msgs = tuple(build_msg(pb, n, f) for n, f in st["msgs"])
    types = tuple(getattr(pb, n) for n in st["types"])
    res = await conn.send_messages_await_response_complex(msgs, make_pred(st.get("append")), make_pred(st.get("stop")), types, st.get("timeout", 10.0))
    return [[type(m).__name__, m.SerializeToString()] for m in res]


@step("conn.send")
async def _k_send(ctx: Ctx, a: Actor, st: dict) -> Any:
    conn = ctx.conn_objs[st.get("k", "k0")]
    conn.send_messages(tuple(build_msg(ctx.L.pb, n, f) for n, f in st["msgs"]))


# ----------------------------------------------------------------------------------------
# raw message subscribers (C12)
# ----------------------------------------------------------------------------------------


def _add_raw_cb(ctx: Ctx, conn: Any, sid: str, types: list, behaviors: list) -> None:
    pb = ctx.L.pb
    w = ctx.world
    state = {"calls": 0}

    def cb(msg: Any) -> None:
        state["calls"] += 1
        w.rec("cb_raw", sid=sid, name=type(msg).__name__, data=msg.SerializeToString(), n=state["calls"])
        for b in behaviors:
            if b.get("on_call") != state["calls"]:
                continue
            if b["do"] == "remove_self":
                _remove_raw_cb(ctx, sid)
            elif b["do"] == "remove":
                _remove_raw_cb(ctx, b["sid"])
            elif b["do"] == "add":
                _add_raw_cb(ctx, conn, b["new"]["sid"], b["new"]["types"], b["new"].get("behaviors", []))
            elif b["do"] == "raise":
                w.rec("cb_raise", sid=sid)
                raise ValueError("subscriber failure " + sid)
            elif b["do"] == "force_disconnect":
                # the application closes the session from inside a message callback (public API, force path has no await)
                cli = ctx.client
                w.rec("cb_force_disconnect", sid=sid)
                _rec_disc(ctx, cli, True)
                coro = cli.disconnect(force=True)
                try:
                    coro.send(None)
                except StopIteration:
                    pass
                else:
                    coro.close()
                    raise HarnessError("disconnect(force=True) suspended")

    w.rec("sub_add", sid=sid, types=list(types))
    remove = conn.add_message_callback(cb, tuple(getattr(pb, t) for t in types))
    ctx.subs[sid] = remove
    ctx.extra.setdefault("raw_cb_fn", {})[sid] = (cb, list(types))


def _add_raw_cb_again(ctx: Ctx, conn: Any, sid: str, key: str, types: list) -> None:
    """A second, overlapping subscription of the SAME callable (sid) for `types`; removable under `key`."""
    ent = ctx.extra.get("raw_cb_fn", {}).get(sid)
    if ent is None:
        return
    ctx.world.rec("sub_add", sid=sid, types=list(types), again=key)
    ctx.subs[key] = conn.add_message_callback(ent[0], tuple(getattr(ctx.L.pb, t) for t in types))
    ctx.extra.setdefault("raw_cb_types", {})[key] = (sid, list(types))


def _remove_raw_cb(ctx: Ctx, sid: str) -> None:
    rm = ctx.subs.pop(sid, None)
    if rm is not None and sid in ctx.extra.get("raw_cb_types", {}):
        base, types = ctx.extra["raw_cb_types"][sid]
        ctx.world.rec("sub_remove", sid=base, types=types, again=sid)
        rm()
        return
    if rm is not None and sid in ctx.extra.get("raw_cb_fn", {}) and any(b == sid for b, _t in ctx.extra.get("raw_cb_types", {}).values()):
        # the callable also has an overlapping second subscription: removing this one takes away exactly its types
        ctx.world.rec("sub_remove", sid=sid, types=ctx.extra["raw_cb_fn"][sid][1])
        ctx.extra.setdefault("removed_cbs", {})[sid] = rm
        rm()
        return
    if rm is not None:
        ctx.world.rec("sub_remove", sid=sid)
        ctx.extra.setdefault("removed_cbs", {})[sid] = rm
        rm()
    elif sid in ctx.extra.get("removed_cbs", {}):
        # the unsubscribe callable is idempotent by contract: calling it again must change nothing
        ctx.world.rec("sub_remove_again", sid=sid, types=ctx.extra.get("raw_cb_fn", {}).get(sid, (None, []))[1])
        ctx.extra["removed_cbs"][sid]()


@step("add_cb")
async def _s_add_cb(ctx: Ctx, a: Actor, st: dict) -> Any:
    conn = _cli(ctx, st)._get_connection()
    _add_raw_cb(ctx, conn, st["sid"], st["types"], st.get("behaviors", []))


@step("conn.add_cb")
async def _k_add_cb(ctx: Ctx, a: Actor, st: dict) -> Any:
    """Subscribe on a raw connection object at any stage of its life (APIConnection.add_message_callback)."""
    _add_raw_cb(ctx, ctx.conn_objs[st.get("k", "k0")], st["sid"], st["types"], st.get("behaviors", []))


@step("add_cb_again")
async def _s_add_cb_again(ctx: Ctx, a: Actor, st: dict) -> Any:
    conn = _cli(ctx, st)._get_connection()
    _add_raw_cb_again(ctx, conn, st["sid"], st["key"], st["types"])


@step("remove_cb")
async def _s_remove_cb(ctx: Ctx, a: Actor, st: dict) -> Any:
    _remove_raw_cb(ctx, st["sid"])


# ----------------------------------------------------------------------------------------
# frame-helper level (C01-C04): the real helper on a real transport, stub connection
# ----------------------------------------------------------------------------------------


class StubConnection:
    """Recording stand-in for the helper's only collaborator."""

    def __init__(self, ctx: Ctx, oid: str) -> None:
        self._w = ctx.world
        self._oid = oid
        self.closed = False

    def process_packet(self, msg_type: int, data: bytes) -> None:
        self._w.rec("pp", conn=self._oid, type=msg_type, data=bytes(data), state="CLOSED" if self.closed else "CONNECTED")

    def report_fatal_error(self, err: Exception) -> None:
        self._w.rec("fatal", conn=self._oid, err=exc_info(err), state="CLOSED" if self.closed else "CONNECTED")
        self.closed = True
        fh = getattr(self, "fh", None)
        if fh is not None:
            fh.close()


@step("fh.attach")
async def _fh_attach(ctx: Ctx, a: Actor, st: dict) -> Any:
    import socket as _s

    from .core import SimSocket
    from .device import SimConn

    w = ctx.world
    L = ctx.L
    oid = w.new_id("conn")
    stub = StubConnection(ctx, oid)
    w.rec("conn_new", conn=oid)  # (in front of the socket: the history index attributes a new socket to the newest connection)
    sock = SimSocket(w, _s.AF_INET, _s.SOCK_STREAM, _s.IPPROTO_TCP)
    sock.connect_done = True
    sock.peer = ("10.0.0.5", 6053)
    dev = next(iter(ctx.devices.values()))
    conn = SimConn(w.net, sock, dev)
    sock.conn = conn
    w.net.conns.append(conn)
    w.rec("tcp_established", fd=sock._fd, addr="10.0.0.5", conn=conn.cid)
    ctx.extra["stub"] = stub
    kind = st.get("kind", "plaintext")

    def factory() -> Any:
        if kind == "noise":
            fh = L.noise.APINoiseFrameHelper(connection=stub, noise_psk=st["psk"], expected_name=st.get("expected_name"), client_info="simclient", log_name="sim")
        else:
            fh = L.plain_text.APIPlaintextFrameHelper(connection=stub, client_info="simclient", log_name="sim")
        return fh

    dev.on_connect(conn)
    _, fh = await w.loop.create_connection(factory, sock=sock)
    stub.fh = fh
    ctx.extra["fh"] = fh

    def on_ready(fut: Any) -> None:
        if fut.cancelled():
            w.rec("fh_ready", conn=oid, ok=False, err={"cls": "CancelledError", "mro": [], "api": False, "text": "", "chain": []})
        elif fut.exception() is not None:
            w.rec("fh_ready", conn=oid, ok=False, err=exc_info(fut.exception()))
        else:
            w.rec("fh_ready", conn=oid, ok=True, err=None)

    fh.ready_future.add_done_callback(on_ready)
    if st.get("wait_ready", True):
        try:
            await fh.ready_future
        except asyncio.CancelledError:
            raise
    return oid


@step("fh.write")
async def _fh_write(ctx: Ctx, a: Actor, st: dict) -> Any:
    from .device import gen_bytes

    fh = ctx.extra["fh"]
    packets = []
    for p in st["packets"]:
        payload = gen_bytes(p["gen"][0], p["gen"][1]) if "gen" in p else bytes.fromhex(p.get("payload_hex", ""))
        packets.append((p["type"], payload))
    packets = packets * int(st.get("repeat", 1))
    fh.write_packets(packets, bool(ctx.world.knobs.get("debug")))


@step("fh.close")
async def _fh_close(ctx: Ctx, a: Actor, st: dict) -> Any:
    ctx.extra["fh"].close()


# ----------------------------------------------------------------------------------------
# Bluetooth proxy operations (C16)
# ----------------------------------------------------------------------------------------


@step("ble.read")
async def _b_read(ctx: Ctx, a: Actor, st: dict) -> Any:
    data = await _cli(ctx, st).bluetooth_gatt_read(st["address"], st["handle"], timeout=st.get("timeout", 30.0))
    return {"data": bytes(data)}


@step("ble.write")
async def _b_write(ctx: Ctx, a: Actor, st: dict) -> Any:
    await _cli(ctx, st).bluetooth_gatt_write(st["address"], st["handle"], bytes.fromhex(st.get("data", "01")), st.get("response", True), timeout=st.get("timeout", 30.0))


@step("ble.notify")
async def _b_notify(ctx: Ctx, a: Actor, st: dict) -> Any:
    tag = st.get("tag", a.aid)

    def on_notify(handle: int, data: bytearray) -> None:
        ctx.world.rec("cb_notify", tag=tag, handle=handle, data=bytes(data))

    stop, remove = await _cli(ctx, st).bluetooth_gatt_start_notify(st["address"], st["handle"], on_notify, timeout=st.get("timeout", 10.0))
    ctx.subs["notify:" + tag] = (stop, remove)


@step("ble.notify_stop")
async def _b_notify_stop(ctx: Ctx, a: Actor, st: dict) -> Any:
    ent = ctx.subs.pop("notify:" + st["tag"], None)
    if ent is None:
        again = ctx.extra.get("ble_unsubbed", {}).get("notify:" + st["tag"])
        if again is None:
            return "no-subscription"
        again[1]()  # remove_callback after a stop / a second remove: idempotent by contract
        return "again"
    ctx.extra.setdefault("ble_unsubbed", {})["notify:" + st["tag"]] = ent
    stop, remove = ent
    if st.get("remove_only"):
        remove()
    else:
        await stop()


@step("ble.services")
async def _b_services(ctx: Ctx, a: Actor, st: dict) -> Any:
    res = await _cli(ctx, st).bluetooth_gatt_get_services(st["address"])
    return {"address": res.address, "services": [s.handle for s in res.services]}


@step("ble.pair")
async def _b_pair(ctx: Ctx, a: Actor, st: dict) -> Any:
    r = await _cli(ctx, st).bluetooth_device_pair(st["address"], timeout=st.get("timeout", 30.0))
    return {"address": r.address, "paired": r.paired, "error": r.error}


@step("ble.unpair")
async def _b_unpair(ctx: Ctx, a: Actor, st: dict) -> Any:
    r = await _cli(ctx, st).bluetooth_device_unpair(st["address"], timeout=st.get("timeout", 30.0))
    return {"address": r.address, "success": r.success, "error": r.error}


@step("ble.clear_cache")
async def _b_clear(ctx: Ctx, a: Actor, st: dict) -> Any:
    r = await _cli(ctx, st).bluetooth_device_clear_cache(st["address"], timeout=st.get("timeout", 30.0))
    return {"address": r.address, "success": r.success, "error": r.error}


@step("ble.disconnect")
async def _b_disc(ctx: Ctx, a: Actor, st: dict) -> Any:
    await _cli(ctx, st).bluetooth_device_disconnect(st["address"], timeout=st.get("timeout", 20.0))


@step("ble.connect")
async def _b_connect(ctx: Ctx, a: Actor, st: dict) -> Any:
    tag = st.get("tag", a.aid)

    def on_state(connected: bool, mtu: int, error: int) -> None:
        ctx.world.rec("cb_ble_state", tag=tag, connected=bool(connected), mtu=mtu, error=error)

    unsub = await _cli(ctx, st).bluetooth_device_connect(st["address"], on_state, timeout=st.get("timeout", 30.0), disconnect_timeout=st.get("disconnect_timeout", 20.0), feature_flags=st.get("feature_flags", 0), has_cache=st.get("has_cache", False), address_type=st.get("address_type"))
    ctx.subs["bleconn:" + tag] = unsub


@step("ble.unsub")
async def _b_unsub(ctx: Ctx, a: Actor, st: dict) -> Any:
    unsub = ctx.subs.pop("bleconn:" + st["tag"], None)
    if unsub is None:
        again = ctx.extra.get("ble_unsubbed", {}).get("bleconn:" + st["tag"])
        if again is None:
            return "no-subscription"
        again()  # the unsubscribe callable is idempotent by contract
        return "again"
    ctx.extra.setdefault("ble_unsubbed", {})["bleconn:" + st["tag"]] = unsub
    unsub()


# ----------------------------------------------------------------------------------------
# subscriptions (C17)
# ----------------------------------------------------------------------------------------


def _plain(v: Any) -> Any:
    import dataclasses
    import enum

    if isinstance(v, enum.Enum):
        return {"enum": int(v.value)}
    if isinstance(v, (bytes, bytearray)):
        return {"bytes": bytes(v).hex()}
    if isinstance(v, (list, tuple)):
        return [_plain(x) for x in v]
    if dataclasses.is_dataclass(v) and not isinstance(v, type):
        return _plain_fields(v)
    if isinstance(v, float) and v != v:
        return {"nan": True}
    return v


def _plain_fields(obj: Any) -> dict:
    import dataclasses

    return {f.name: _plain(getattr(obj, f.name)) for f in dataclasses.fields(obj)}


@step("sub")
async def _s_sub(ctx: Ctx, a: Actor, st: dict) -> Any:
    w = ctx.world
    cli = _cli(ctx, st)
    kind = st["kind"]
    tag = st.get("tag", a.aid)
    unsub = None
    if kind == "states":

        def on_state(state: Any) -> None:
            d = {"tag": tag, "cls": type(state).__name__, "key": state.key}
            if type(state).__name__ == "CameraState":
                d["data"] = bytes(state.data)
            else:
                d["fields"] = _plain_fields(state)
            w.rec("cb_state", **d)
            if type(state).__name__ == "CameraState" and state.key in st.get("raise_on_camera_keys", ()):
                # an application bug: the consumer chokes on a completed image
                w.rec("cb_raise", sid=tag)
                raise ValueError("state consumer failed on an image")

        cli.subscribe_states(on_state)
    elif kind == "logs":
        cli.subscribe_logs(lambda msg: w.rec("cb_log", tag=tag, message=bytes(msg.message)))
    elif kind == "service_calls":

        def on_service(call: Any) -> None:
            w.rec("cb_service", tag=tag, service=call.service, cls=type(call).__name__, is_event=bool(call.is_event), data=dict(call.data), data_template=dict(call.data_template), variables=dict(call.variables))
            if st.get("scribble", True):
                # a consumer that merges rendered templates into the mapping it was handed (the model is the consumer's
                # from then on): nothing of that may show up in a later delivery
                call.data["rendered"] = "by-" + tag
                call.data_template.clear()
                call.variables["seen"] = "1"

        cli.subscribe_service_calls(on_service)
    elif kind == "ha_states":
        on_req = (lambda e, attr: w.rec("cb_ha_request", tag=tag, entity_id=e, attribute=attr)) if st.get("with_request", True) else None
        cli.subscribe_home_assistant_states(lambda e, attr: w.rec("cb_ha_sub", tag=tag, entity_id=e, attribute=attr), on_req)
    elif kind == "ble_adv":

        def on_adv(adv: Any) -> None:
            w.rec("cb_adv", tag=tag, address=adv.address, cls=type(adv).__name__, rssi=adv.rssi, name=adv.name, service_uuids=list(adv.service_uuids), service_data={k: bytes(v).hex() for k, v in adv.service_data.items()}, manufacturer_data={int(k): bytes(v).hex() for k, v in adv.manufacturer_data.items()})
            if st.get("scribble", True):
                adv.service_uuids.append("scribbled-" + tag)
                adv.service_data["scribbled"] = b"\x00"
                adv.manufacturer_data[65535] = b"\x00"

        unsub = cli.subscribe_bluetooth_le_advertisements(on_adv)
    elif kind == "ble_raw":
        unsub = cli.subscribe_bluetooth_le_raw_advertisements(lambda msg: w.rec("cb_raw_adv", tag=tag, n=len(msg.advertisements)))
    elif kind == "ble_free":
        unsub = cli.subscribe_bluetooth_connections_free(lambda free, limit: w.rec("cb_free", tag=tag, free=free, limit=limit))
    elif kind == "voice":
        plan = list(st.get("start_plan", [{"port": 6055, "delay": 0.0}]))
        calls = {"n": 0}

        async def handle_start(conversation_id: str, flags: int, audio_settings: Any, wake_word_phrase: Any) -> Any:
            i = calls["n"]
            calls["n"] += 1
            p = plan[min(i, len(plan) - 1)]
            w.rec("cb_va_start", tag=tag, conversation_id=conversation_id, flags=flags, wake_word_phrase=wake_word_phrase, plan=p)
            try:
                if p.get("delay", 0.0) > 0:
                    await sim_sleep(w, p["delay"])
            except asyncio.CancelledError:
                w.rec("cb_va_start_cancelled", tag=tag, conversation_id=conversation_id)
                raise
            w.rec("cb_va_start_done", tag=tag, conversation_id=conversation_id, port=p.get("port"))
            return p.get("port")

        async def handle_stop(abort: bool) -> None:
            w.rec("cb_va_stop", tag=tag, abort=bool(abort))

        async def handle_audio(data: bytes) -> None:
            w.rec("cb_va_audio", tag=tag, data=bytes(data))

        async def handle_fin(fin: Any) -> None:
            w.rec("cb_va_announce", tag=tag, success=bool(fin.success))

        unsub = cli.subscribe_voice_assistant(handle_start=handle_start, handle_stop=handle_stop, handle_audio=handle_audio if st.get("audio", True) else None, handle_announcement_finished=handle_fin if st.get("announce", True) else None)
    else:
        raise HarnessError(f"unknown subscription {kind}")
    if unsub is not None:
        ctx.subs["sub:" + tag] = unsub


@step("unsub")
async def _s_unsub(ctx: Ctx, a: Actor, st: dict) -> Any:
    u = ctx.subs.pop("sub:" + st["tag"], None)
    if u is None:
        return "no-subscription"
    u()


# ----------------------------------------------------------------------------------------
# resolver / zeroconf manager (C20)
# ----------------------------------------------------------------------------------------


@step("zm.new")
async def _zm_new(ctx: Ctx, a: Actor, st: dict) -> Any:
    L = ctx.L
    sup = st.get("supplied")
    inst = None
    if sup == "zeroconf":
        inst = FakeZeroconf("app")
    elif sup == "async":
        inst = FakeAsyncZeroconf(zc=FakeZeroconf("app"))
    ctx.extra["zm"] = L.zc_mod.ZeroconfManager(inst)
    ctx.extra["zm_supplied"] = inst
    return sup


@step("zm.get")
async def _zm_get(ctx: Ctx, a: Actor, st: dict) -> Any:
    azc = ctx.extra["zm"].get_async_zeroconf()
    return {"zc": azc.zeroconf.zid, "owner": azc.zeroconf.owner, "closed": azc.zeroconf.closed}


@step("zm.set")
async def _zm_set(ctx: Ctx, a: Actor, st: dict) -> Any:
    which = st.get("which", "same")
    sup = ctx.extra.get("zm_supplied")
    if which == "same" and sup is not None:
        inst = sup
    elif which == "same_inner" and sup is not None:
        inst = sup.zeroconf if isinstance(sup, FakeAsyncZeroconf) else sup
    elif which == "other_async":
        inst = FakeAsyncZeroconf(zc=FakeZeroconf("app"))
    else:
        inst = FakeZeroconf("app")
    ctx.extra["zm"].set_instance(inst)


@step("zm.close")
async def _zm_close(ctx: Ctx, a: Actor, st: dict) -> Any:
    await ctx.extra["zm"].async_close()


@step("resolve")
async def _s_resolve(ctx: Ctx, a: Actor, st: dict) -> Any:
    L = ctx.L
    zm = ctx.extra.get("zm")
    if zm is None:
        zm = L.zc_mod.ZeroconfManager()
        ctx.extra["zm"] = zm
    hosts = list(st["hosts"])
    port = st.get("port", 6053)
    tmo = st.get("timeout")
    if tmo is not None:
        async with asyncio.timeout(tmo):
            res = await L.host_resolver.async_resolve_host(hosts, port, zm)
    else:
        res = await L.host_resolver.async_resolve_host(hosts, port, zm)
    out = []
    for ai in res:
        sa = ai.sockaddr
        out.append([int(ai.family), sa.address, sa.port, getattr(sa, "flowinfo", None), getattr(sa, "scope_id", None)])
    return out


# ----------------------------------------------------------------------------------------
# reconnect manager (C18)
# ----------------------------------------------------------------------------------------


@step("rl.new")
async def _rl_new(ctx: Ctx, a: Actor, st: dict) -> Any:
    w = ctx.world
    L = ctx.L
    delays = st.get("cb_delay", {})

    async def on_connect() -> None:
        w.rec("rl_on_connect")
        if delays.get("connect"):
            await sim_sleep(w, delays["connect"])
        w.rec("rl_on_connect_done")

    async def on_disconnect(expected: bool) -> None:
        w.rec("rl_on_disconnect", expected=bool(expected))
        if delays.get("disconnect"):
            await sim_sleep(w, delays["disconnect"])
        w.rec("rl_on_disconnect_done")

    async def on_error(err: Exception) -> None:
        w.rec("rl_on_error", err=exc_info(err))
        if delays.get("error"):
            await sim_sleep(w, delays["error"])
        w.rec("rl_on_error_done")

    zc = None
    if st.get("zeroconf") == "zeroconf":
        zc = FakeZeroconf("app")
    elif st.get("zeroconf") == "async":
        zc = FakeAsyncZeroconf(zc=FakeZeroconf("app"))
    rl = L.reconnect_logic.ReconnectLogic(client=ctx.client, on_connect=on_connect, on_disconnect=on_disconnect, zeroconf_instance=zc, name=st.get("name"), on_connect_error=on_error)
    if st.get("name_after") is not None:
        # the application learns the device's name later (devices configured by IP address) and assigns the public attribute
        rl.name = st["name_after"]
    ctx.extra["rl"] = rl
    return {"name": rl.name}


@step("rl.start")
async def _rl_start(ctx: Ctx, a: Actor, st: dict) -> Any:
    await ctx.extra["rl"].start()


@step("rl.stop")
async def _rl_stop(ctx: Ctx, a: Actor, st: dict) -> Any:
    await ctx.extra["rl"].stop()


@step("rl.stop_callback")
async def _rl_stop_cb(ctx: Ctx, a: Actor, st: dict) -> Any:
    ctx.extra["rl"].stop_callback()
