"""Seams: import the library from the repo working tree and put the simulator behind
every source of nondeterminism it meets.  No file under the repo is edited.
"""
from __future__ import annotations

import importlib
import importlib.machinery
import logging
import os
import sys
import time as _time
from typing import Any

from .core import EPOCH, HandlerDict, HarnessError, OSet, SocketShim, World

REPO = os.environ.get("VERIF_REPO", "/repo")

_current: list[World | None] = [None]


def current_world() -> World:
    w = _current[0]
    if w is None:
        raise HarnessError("no current world")
    return w


def set_world(w: World | None) -> None:
    _current[0] = w


class TimeShim:
    def time(self) -> float:
        return EPOCH + current_world().now

    def perf_counter(self) -> float:
        return current_world().now

    def monotonic(self) -> float:
        return current_world().now

    def __getattr__(self, name: str) -> Any:
        return getattr(_time, name)


class _FormatHandler(logging.Handler):
    """Formats every record (so %-formatting bugs surface) and records WARNING+."""

    def emit(self, record: logging.LogRecord) -> None:
        try:
            msg = record.getMessage()
        except Exception as exc:  # a formatting error in library logging
            w = _current[0]
            if w is not None:
                w.rec("log_format_error", logger=record.name, err=repr(exc))
            return
        if record.levelno >= logging.WARNING:
            w = _current[0]
            if w is not None:
                w.rec("log", level=record.levelname, logger=record.name, msg=msg[:160])


class Lib:
    """Handles to the library under test (imported once per process)."""

    def __init__(self) -> None:
        if os.getcwd().rstrip("/").endswith("/aioesphomeapi"):
            raise HarnessError("do not run from inside the package directory")
        if REPO not in sys.path:
            sys.path.insert(0, REPO)
        sys.dont_write_bytecode = True
        import aioesphomeapi  # noqa

        pkg_dir = os.path.dirname(os.path.abspath(aioesphomeapi.__file__))
        if not pkg_dir.startswith(os.path.abspath(REPO) + os.sep):
            raise HarnessError(f"aioesphomeapi imported from {pkg_dir}, not from {REPO}")
        import aioesphomeapi.client as client
        import aioesphomeapi.connection as connection
        import aioesphomeapi.core as core
        import aioesphomeapi.api_pb2 as pb
        import aioesphomeapi.reconnect_logic as reconnect_logic
        import aioesphomeapi.host_resolver as host_resolver
        import aioesphomeapi.zeroconf as zc_mod
        import aioesphomeapi._frame_helper.plain_text as plain_text
        import aioesphomeapi._frame_helper.noise as noise
        import aioesphomeapi._frame_helper.base as fh_base
        import aioesphomeapi.model as model
        import aiohappyeyeballs.impl as he_impl

        for name, mod in list(sys.modules.items()):
            if name.startswith("aioesphomeapi") and mod is not None:
                f = getattr(mod, "__file__", None) or ""
                if any(f.endswith(sfx) for sfx in importlib.machinery.EXTENSION_SUFFIXES):
                    raise HarnessError(f"extension module {f} shadows the sources; pure-Python build required")
                if f and not os.path.abspath(f).startswith(os.path.abspath(REPO) + os.sep):
                    raise HarnessError(f"{name} imported from {f}")

        self.pkg_dir = pkg_dir
        self.client = client
        self.connection = connection
        self.core = core
        self.pb = pb
        self.reconnect_logic = reconnect_logic
        self.host_resolver = host_resolver
        self.zc_mod = zc_mod
        self.plain_text = plain_text
        self.noise = noise
        self.fh_base = fh_base
        self.model = model
        self.he_impl = he_impl
        self.APIConnection = connection.APIConnection
        self.ConnectionState = connection.ConnectionState

        # --- seams -----------------------------------------------------------------
        he_impl.socket = SocketShim(current_world)
        shim = TimeShim()
        connection.time = shim
        reconnect_logic.time = shim
        self.Observed = _make_observed(self)
        client.APIConnection = self.Observed

        self.log_handler = _FormatHandler()
        root = logging.getLogger("aioesphomeapi")
        root.handlers[:] = [self.log_handler]
        root.propagate = False
        root.setLevel(logging.INFO)
        logging.getLogger("asyncio").handlers[:] = [logging.NullHandler()]
        logging.getLogger("asyncio").propagate = False

        # randomness seam: the client's Noise ephemeral key (os.urandom inside cryptography)
        import hashlib
        import noise.backends.default.diffie_hellmans as dhmod
        from cryptography.hazmat.primitives.asymmetric import x25519 as real_x25519

        class _DetPriv:
            @staticmethod
            def generate() -> Any:
                w = current_world()
                w._eph_n = getattr(w, "_eph_n", 0) + 1
                seed = str(w.knobs.get("client_eph_seed", "c")) + ":" + str(w._eph_n)
                return real_x25519.X25519PrivateKey.from_private_bytes(hashlib.sha256(seed.encode()).digest())

        class _X25519Shim:
            X25519PrivateKey = _DetPriv
            X25519PublicKey = real_x25519.X25519PublicKey

        # isinstance checks in ED25519.dh use x25519.X25519PrivateKey: keep them working
        class _Meta(type):
            def __instancecheck__(cls, inst: Any) -> bool:
                return isinstance(inst, real_x25519.X25519PrivateKey)

        class _DetPrivK(_DetPriv, metaclass=_Meta):
            pass

        _X25519Shim.X25519PrivateKey = _DetPrivK
        dhmod.x25519 = _X25519Shim

        from . import zcfake

        zcfake.install(self)
        self.zcfake = zcfake

    def set_debug_logging(self, on: bool) -> None:
        logging.getLogger("aioesphomeapi").setLevel(logging.DEBUG if on else logging.INFO)


_lib: list[Lib | None] = [None]


def lib() -> Lib:
    if _lib[0] is None:
        _lib[0] = Lib()
    return _lib[0]


def exc_info(exc: BaseException | None, L: Lib | None = None) -> dict | None:
    """Serializable description of an exception and its cause chain."""
    if exc is None:
        return None
    L = L or lib()
    chain = []
    seen = set()
    e: BaseException | None = exc
    while e is not None and id(e) not in seen and len(chain) < 12:
        seen.add(id(e))
        chain.append(
            {
                "cls": type(e).__name__,
                "api": isinstance(e, L.core.APIConnectionError),
                "fault": getattr(e, "sim_fault_id", None),
                "text": str(e)[:200],
            }
        )
        e = e.__cause__ or (e.__context__ if not e.__suppress_context__ else None)
    d = {
        "cls": type(exc).__name__,
        "api": isinstance(exc, L.core.APIConnectionError),
        "mro": [c.__name__ for c in type(exc).__mro__ if c not in (object, BaseException)],
        "text": str(exc)[:300],
        "chain": chain,
    }
    if hasattr(exc, "received_name"):
        d["received_name"] = exc.received_name
    return d


def _make_observed(L: Lib) -> type:
    APIConnection = L.APIConnection
    cs_slot = APIConnection.__dict__["connection_state"]
    ic_slot = APIConnection.__dict__["is_connected"]

    class ObservedConnection(APIConnection):  # type: ignore[misc, valid-type]
        """The real connection; records transitions, dispatch and fatal errors."""

        def __init__(self, params: Any, on_stop: Any, debug_enabled: bool, log_name: Any) -> None:
            w = current_world()
            self._w = w
            self._oid = w.new_id("conn")
            w.rec("conn_new", conn=self._oid)
            orig = on_stop
            if orig is not None:

                def _on_stop(expected: bool) -> None:
                    w.rec("on_stop", conn=self._oid, expected=bool(expected), is_connected=bool(self.is_connected), state=self.connection_state.name)
                    orig(expected)

                on_stop = _on_stop
            super().__init__(params, on_stop, debug_enabled or w.knobs.get("debug", False), log_name)
            lifo = w.knobs.get("handler_order") == "lifo"
            if type(self._message_handlers) is not dict or type(self._read_exception_futures) is not set:
                raise HarnessError("connection containers changed type; ordered-container seam does not apply")
            self._message_handlers = HandlerDict(lifo)
            self._read_exception_futures = OSet((), lifo)
            w.conns = getattr(w, "conns", [])
            w.conns.append(self)

        def _get_cs(self) -> Any:
            return cs_slot.__get__(self, APIConnection)

        def _set_cs(self, v: Any) -> None:
            try:
                old = cs_slot.__get__(self, APIConnection)
            except AttributeError:
                old = None
            cs_slot.__set__(self, v)
            self._w.rec("state", conn=self._oid, old=old.name if old is not None else None, new=v.name)
            if v.name == "CLOSED" and (old is None or old.name != "CLOSED"):
                self._w.post_close_probe(self._oid)

        connection_state = property(_get_cs, _set_cs)

        def _get_ic(self) -> Any:
            return ic_slot.__get__(self, APIConnection)

        def _set_ic(self, v: Any) -> None:
            ic_slot.__set__(self, v)
            try:
                st = cs_slot.__get__(self, APIConnection).name
            except AttributeError:
                st = None
            self._w.rec("is_connected", conn=self._oid, value=bool(v), state=st)

        is_connected = property(_get_ic, _set_ic)

        def process_packet(self, msg_type_proto: int, data: bytes) -> None:
            self._w.rec("pp", conn=self._oid, type=msg_type_proto, data=bytes(data), state=self.connection_state.name)
            super().process_packet(msg_type_proto, data)

        def report_fatal_error(self, err: Exception) -> None:
            self._w.rec("fatal", conn=self._oid, err=exc_info(err, L), state=self.connection_state.name)
            super().report_fatal_error(err)

    return ObservedConnection
